(* C20 — lemmas about Model/Sheet.v, part 2: closed forms of the builders on sane rows. *)
From Coq Require Import QArith Lia.
From Verif Require Import Prelude Model.Sheet Proofs.Sheet.
Open Scope Z_scope.

Ltac sb := repeat match goal with
  | H : seqb _ _ = true |- _ => apply seqb_eq in H
  | H : seqb _ _ = false |- _ => apply seqb_neq in H
  end.

(* ------------------------------------------------------------------ mapM *)
Lemma mapM_Forall2 : forall {A B} (f : A -> res B) l r, mapM f l = Ok r -> Forall2 (fun x y => f x = Ok y) l r.
Proof.
  intros A B f. induction l as [|x t IH]; cbn [mapM]; intros r H.
  - inversion H. constructor.
  - destruct (f x) as [y|e] eqn:E; cbn [bind] in H; [|discriminate].
    destruct (mapM f t) as [r'|e] eqn:E'; cbn [bind] in H; [|discriminate].
    inversion H; subst. constructor; [exact E | apply IH; reflexivity].
Qed.
Lemma mapM_all_ok : forall {A B} (f : A -> res B) (g : A -> B) l,
  (forall x, In x l -> f x = Ok (g x)) -> mapM f l = Ok (map g l).
Proof.
  intros A B f g. induction l as [|x t IH]; intros H; cbn [mapM map]; [reflexivity|].
  rewrite (H x (or_introl eq_refl)). cbn [bind]. rewrite IH; [reflexivity|].
  intros y Hy. apply H. right. exact Hy.
Qed.
Lemma mapM_map : forall {A B C} (f : B -> res C) (g : A -> B) l, mapM f (map g l) = mapM (fun x => f (g x)) l.
Proof.
  intros A B C f g. induction l as [|x t IH]; cbn [mapM map]; [reflexivity|]. rewrite IH. reflexivity.
Qed.
Lemma mapM_ok_map : forall {A B} (f : A -> res B) (g : A -> B) l r,
  (forall x y, In x l -> f x = Ok y -> y = g x) -> mapM f l = Ok r -> r = map g l.
Proof.
  intros A B f g. induction l as [|x t IH]; cbn [mapM map]; intros r Hg H.
  - inversion H. reflexivity.
  - destruct (f x) as [y|e] eqn:E; cbn [bind] in H; [|discriminate].
    destruct (mapM f t) as [r'|e] eqn:E'; cbn [bind] in H; [|discriminate].
    inversion H; subst. rewrite (Hg x y (or_introl eq_refl) E). f_equal.
    apply IH; [|reflexivity]. intros x' y' Hx. apply Hg. right. exact Hx.
Qed.
Lemma flat_map_flat_map : forall {A B C} (f : B -> list C) (g : A -> list B) l,
  flat_map f (flat_map g l) = concat (map (fun x => flat_map f (g x)) l).
Proof.
  intros A B C f g. induction l as [|x t IH]; cbn [flat_map map concat]; [reflexivity|].
  rewrite flat_map_app, IH. reflexivity.
Qed.
Lemma concat_map_flat_map : forall {A B} (f : A -> list B) l, concat (map f l) = flat_map f l.
Proof. intros. symmetry. apply flat_map_concat_map. Qed.

(* ------------------------------------------------------------------ links of a site *)
Definition no_loops (ls : list link) : Prop := forall l, In l ls -> l_from l <> l_to l.

Lemma links_of_In : forall c ls l, In l (links_of c ls) <-> In l ls /\ incident c l.
Proof.
  intros c ls l. unfold links_of, incident. rewrite in_flat_map. split.
  - intros [x [Hx Hin]]. apply in_app_or in Hin.
    destruct (seqb (l_from x) c) eqn:E1, (seqb (l_to x) c) eqn:E2; cbn in Hin; sb;
      intuition (subst; auto).
  - intros [Hl [H|H]]; exists l; split; auto; apply in_or_app.
    + left. rewrite <- H, seqb_refl. left. reflexivity.
    + right. rewrite <- H, seqb_refl. left. reflexivity.
Qed.

Lemma links_of_NoDup : forall c ls, links_distinct ls -> no_loops ls -> NoDup (links_of c ls).
Proof.
  intros c ls Hd Hl. pose proof (links_distinct_NoDup ls Hd) as Hn. clear Hd.
  induction ls as [|l t IH]; [constructor|].
  inversion Hn as [|x u Hx Hu]; subst.
  assert (Ht : no_loops t) by (intros y Hy; apply Hl; right; exact Hy).
  specialize (IH Ht Hu).
  change (links_of c (l :: t)) with
    (((if seqb (l_from l) c then [l] else []) ++ (if seqb (l_to l) c then [l] else [])) ++ links_of c t).
  assert (Hnot : ~ In l (links_of c t)) by (intros H; apply links_of_In in H; exact (Hx (proj1 H))).
  destruct (seqb (l_from l) c) eqn:E1, (seqb (l_to l) c) eqn:E2; cbn [app].
  - apply seqb_eq in E1. apply seqb_eq in E2. exfalso. apply (Hl l (or_introl eq_refl)). rewrite E1, E2. reflexivity.
  - constructor; assumption.
  - constructor; assumption.
  - exact IH.
Qed.

Lemma other_city_inj : forall c ls l1 l2, links_distinct ls -> no_loops ls ->
  In l1 (links_of c ls) -> In l2 (links_of c ls) -> other_city c l1 = other_city c l2 -> l1 = l2.
Proof.
  intros c ls l1 l2 Hd Hl H1 H2 He.
  apply links_of_In in H1, H2. destruct H1 as [I1 C1], H2 as [I2 C2].
  apply (links_distinct_eq ls l1 l2 Hd I1 I2). apply link_eqv_spec.
  unfold other_city in He. unfold incident in C1, C2. revert He.
  destruct (seqb (l_from l1) c) eqn:E1, (seqb (l_from l2) c) eqn:E2; intros He; sb.
  - left. split; congruence.
  - right. destruct C2 as [C2|C2]; [contradiction|]. split; congruence.
  - right. destruct C1 as [C1|C1]; [contradiction|]. split; congruence.
  - left. destruct C1 as [C1|C1]; [contradiction|]. destruct C2 as [C2|C2]; [contradiction|]. split; congruence.
Qed.

Lemma other_city_neq : forall c ls l, no_loops ls -> In l (links_of c ls) -> other_city c l <> c.
Proof.
  intros c ls l Hl H. apply links_of_In in H. destruct H as [I C]. unfold other_city.
  destruct (seqb (l_from l) c) eqn:E.
  - apply seqb_eq in E. pose proof (Hl l I). congruence.
  - apply seqb_neq in E. exact E.
Qed.

Lemma others_NoDup : forall c ls, links_distinct ls -> no_loops ls -> NoDup (fiber_dest_from_source c ls).
Proof.
  intros c ls Hd Hl. unfold fiber_dest_from_source.
  pose proof (links_of_NoDup c ls Hd Hl) as Hn.
  assert (Hinj : forall a b, In a (links_of c ls) -> In b (links_of c ls) -> other_city c a = other_city c b -> a = b)
    by (intros a b; apply other_city_inj; assumption).
  induction (links_of c ls) as [|x t IH]; [constructor|].
  inversion Hn as [|y u Hy Hu]; subst. cbn [map]. constructor.
  - intros Hin. apply in_map_iff in Hin. destruct Hin as [z [Hz1 Hz2]].
    assert (z = x) by (apply Hinj; [right; exact Hz2 | left; reflexivity | exact Hz1]). subst. contradiction.
  - apply IH; [exact Hu|]. intros a b Ha Hb. apply Hinj; right; assumption.
Qed.

(* ------------------------------------------------------------------ fiber_link *)
Lemma find_unique : forall {A} (p : A -> bool) l x,
  In x l -> p x = true -> (forall y, In y l -> p y = true -> y = x) -> find p l = Some x.
Proof.
  intros A p. induction l as [|a t IH]; intros x Hin Hp Hu; [destruct Hin|].
  cbn [find]. destruct (p a) eqn:E.
  - f_equal. apply Hu; [left; reflexivity | exact E].
  - destruct Hin as [Hin|Hin]; [subst; congruence|].
    apply IH; [exact Hin | exact Hp |]. intros y Hy. apply Hu. right. exact Hy.
Qed.

Lemma in2_spec : forall x a b, in2 x a b = true <-> x = a \/ x = b.
Proof. intros. unfold in2. rewrite orb_true_iff, !seqb_eq. reflexivity. Qed.

Lemma fiber_link_east : forall ls l, links_distinct ls -> no_loops ls -> In l ls ->
  fiber_link (l_from l) (l_to l) ls = Ok (east_fiber_uid l).
Proof.
  intros ls l Hd Hl Hin. unfold fiber_link.
  rewrite (find_unique _ (links_of (l_from l) ls) l).
  - rewrite seqb_refl. reflexivity.
  - apply links_of_In. split; [exact Hin | left; reflexivity].
  - apply andb_true_iff. split; apply in2_spec; [left | right]; reflexivity.
  - intros y Hy Hp. apply links_of_In in Hy. destruct Hy as [Iy _].
    apply andb_true_iff in Hp. destruct Hp as [P1 P2]. apply in2_spec in P1, P2.
    apply (links_distinct_eq ls y l Hd Iy Hin). apply link_eqv_spec.
    pose proof (Hl y Iy) as Ny. intuition congruence.
Qed.
Lemma fiber_link_west : forall ls l, links_distinct ls -> no_loops ls -> In l ls ->
  fiber_link (l_to l) (l_from l) ls = Ok (west_fiber_uid l).
Proof.
  intros ls l Hd Hl Hin. unfold fiber_link.
  rewrite (find_unique _ (links_of (l_to l) ls) l).
  - destruct (seqb (l_from l) (l_to l)) eqn:E; [|reflexivity].
    apply seqb_eq in E. exfalso. exact (Hl l Hin E).
  - apply links_of_In. split; [exact Hin | right; reflexivity].
  - apply andb_true_iff. split; apply in2_spec; [right | left]; reflexivity.
  - intros y Hy Hp. apply links_of_In in Hy. destruct Hy as [Iy _].
    apply andb_true_iff in Hp. destruct Hp as [P1 P2]. apply in2_spec in P1, P2.
    apply (links_distinct_eq ls y l Hd Iy Hin). apply link_eqv_spec.
    pose proof (Hl y Iy) as Ny. intuition congruence.
Qed.

(* the fibre leaving site c on link l, and the one arriving at c *)
Definition out_uid (c : string) (l : link) : uid := if seqb (l_from l) c then east_fiber_uid l else west_fiber_uid l.
Definition in_uid (c : string) (l : link) : uid := if seqb (l_from l) c then west_fiber_uid l else east_fiber_uid l.

Lemma fiber_link_out : forall c ls l, links_distinct ls -> no_loops ls -> In l (links_of c ls) ->
  fiber_link c (other_city c l) ls = Ok (out_uid c l).
Proof.
  intros c ls l Hd Hl H. apply links_of_In in H. destruct H as [I C]. unfold other_city, out_uid.
  destruct (seqb (l_from l) c) eqn:E.
  - apply seqb_eq in E. subst c. apply fiber_link_east; assumption.
  - destruct C as [C|C]; [apply seqb_neq in E; contradiction|]. subst c. apply fiber_link_west; assumption.
Qed.
Lemma fiber_link_in : forall c ls l, links_distinct ls -> no_loops ls -> In l (links_of c ls) ->
  fiber_link (other_city c l) c ls = Ok (in_uid c l).
Proof.
  intros c ls l Hd Hl H. apply links_of_In in H. destruct H as [I C]. unfold other_city, in_uid.
  destruct (seqb (l_from l) c) eqn:E.
  - apply seqb_eq in E. subst c. apply fiber_link_west; assumption.
  - destruct C as [C|C]; [apply seqb_neq in E; contradiction|]. subst c. apply fiber_link_east; assumption.
Qed.

(* shape of the two uids: the arriving fibre of c on l runs  other -> c,  the leaving one  c -> other *)
Lemma in_uid_shape : forall c ls l, In l (links_of c ls) ->
  exists k, in_uid c l = UFiber (other_city c l) c k.
Proof.
  intros c ls l H. apply links_of_In in H. destruct H as [I C]. unfold in_uid, other_city, west_fiber_uid, east_fiber_uid.
  destruct (seqb (l_from l) c) eqn:E.
  - apply seqb_eq in E. subst c. eexists. reflexivity.
  - destruct C as [C|C]; [apply seqb_neq in E; contradiction|]. subst c. eexists. reflexivity.
Qed.
Lemma out_uid_shape : forall c ls l, In l (links_of c ls) ->
  exists k, out_uid c l = UFiber c (other_city c l) k.
Proof.
  intros c ls l H. apply links_of_In in H. destruct H as [I C]. unfold out_uid, other_city, west_fiber_uid, east_fiber_uid.
  destruct (seqb (l_from l) c) eqn:E.
  - apply seqb_eq in E. subst c. eexists. reflexivity.
  - destruct C as [C|C]; [apply seqb_neq in E; contradiction|]. subst c. eexists. reflexivity.
Qed.

(* ------------------------------------------------------------------ eqpt_in_city_to_city *)
Definition has_row (c o : string) (es : list eqpt) : bool :=
  existsb (fun e => seqb (e_from e) c && seqb (e_to e) o) es.

Lemma eqpts_of_In : forall c es e, In e (eqpts_of c es) <-> In e es /\ e_from e = c.
Proof. intros. unfold eqpts_of. rewrite filter_In, seqb_eq. reflexivity. Qed.

Lemma has_row_filter : forall c o es, existsb (fun e => seqb (e_to e) o) (eqpts_of c es) = has_row c o es.
Proof.
  intros c o. unfold has_row, eqpts_of. induction es as [|e t IH]; cbn [filter existsb]; [reflexivity|].
  destruct (seqb (e_from e) c); cbn [existsb andb]; rewrite IH; reflexivity.
Qed.
Lemma has_row_spec : forall c o es, has_row c o es = true <-> exists e, In e es /\ e_from e = c /\ e_to e = o.
Proof.
  intros. unfold has_row. rewrite existsb_exists. split; intros [e [H1 H2]]; exists e; split; auto.
  - apply andb_true_iff in H2. rewrite !seqb_eq in H2. exact H2.
  - apply andb_true_iff. rewrite !seqb_eq. exact H2.
Qed.

Lemma fold_roadm : forall c o d m acc, (forall e, In e m -> e_from e = c) ->
  fold_left (fun acc e => if seqb (e_to e) o then Some (UEdfaTo d (e_from e) (e_to e)) else acc) m acc =
  if existsb (fun e => seqb (e_to e) o) m then Some (UEdfaTo d c o) else acc.
Proof.
  intros c o d. induction m as [|e t IH]; intros acc Hm; cbn [fold_left existsb]; [reflexivity|].
  rewrite IH by (intros x Hx; apply Hm; right; exact Hx).
  destruct (seqb (e_to e) o) eqn:E; cbn [orb]; [|reflexivity].
  apply seqb_eq in E. rewrite (Hm e (or_introl eq_refl)), E. destruct (existsb _ t); reflexivity.
Qed.

Lemma ein_roadm : forall c o es d,
  eqpt_in_city_to_city c o es TRoadm d = if has_row c o es then Some (UEdfaTo d c o) else None.
Proof.
  intros c o es d. unfold eqpt_in_city_to_city. rewrite <- has_row_filter.
  assert (Hm : forall e, In e (eqpts_of c es) -> e_from e = c) by (intros e He; apply eqpts_of_In in He; tauto).
  destruct (eqpts_of c es) as [|e t] eqn:E; [reflexivity|].
  rewrite (fold_roadm c o d (e :: t) None Hm). reflexivity.
Qed.
Lemma ein_fused : forall c o es d, eqpt_in_city_to_city c o es TFused d = Some (UFused d c).
Proof. intros. unfold eqpt_in_city_to_city. destruct (eqpts_of c es); reflexivity. Qed.
Lemma ein_ila_none : forall c o es d, eqpts_of c es = [] -> eqpt_in_city_to_city c o es TIla d = Some (UEdfa d c).
Proof. intros c o es d H. unfold eqpt_in_city_to_city. rewrite H. reflexivity. Qed.
Lemma ein_ila_one : forall c o es d e, eqpts_of c es = [e] ->
  eqpt_in_city_to_city c o es TIla d = Some (UEdfaTo (if seqb (e_to e) o then d else rev_dir d) c (e_to e)).
Proof.
  intros c o es d e H. unfold eqpt_in_city_to_city. rewrite H. cbn [fold_left fst snd].
  assert (e_from e = c) as -> by (apply (eqpts_of_In c es e); rewrite H; left; reflexivity). reflexivity.
Qed.

(* ------------------------------------------------------------------ the chains  from -> [equipment] -> to  of a site *)
Definition chain : Type := (uid * option uid * uid)%type.
Definition connect3 (ch : chain) : list (uid * uid) := connect_eqpt (fst (fst ch)) (snd (fst ch)) (snd ch).
Definition roadm_chains (c : string) (es : list eqpt) (l : link) : list chain :=
  let o := other_city c l in
  [(URoadm c, eqpt_in_city_to_city c o es TRoadm East, out_uid c l);
   (in_uid c l, eqpt_in_city_to_city c o es TRoadm West, URoadm c)].
Definition line_chains (c : string) (t : ntype) (es : list eqpt) (l0 l1 : link) : list chain :=
  let o0 := other_city c l0 in
  [(in_uid c l0, eqpt_in_city_to_city c o0 es t West, out_uid c l1);
   (in_uid c l1, eqpt_in_city_to_city c o0 es t East, out_uid c l0)].
Definition node_chains (ls : list link) (es : list eqpt) (n : node) : list chain :=
  let c := n_city n in
  match n_type n with
  | TRoadm => flat_map (roadm_chains c es) (links_of c ls)
  | t => match links_of c ls with l0 :: l1 :: _ => line_chains c t es l0 l1 | _ => [] end
  end.

Lemma ecc_chains : forall ns ls es n cx, NoDup (cities ns) -> links_distinct ls -> no_loops ls -> In n ns ->
  eqpt_connection_by_city (n_city n) ns ls es = Ok cx -> cx = flat_map connect3 (node_chains ls es n).
Proof.
  intros ns ls es n cx Hnd Hd Hl Hin H. unfold eqpt_connection_by_city in H.
  unfold lookup_node in H. rewrite (find_node_In ns n Hnd Hin) in H. cbn [bind] in H.
  unfold node_chains. set (c := n_city n) in *.
  assert (Hro : forall t, t = n_type n -> t <> TRoadm ->
            match fiber_dest_from_source c ls with
            | o0 :: o1 :: _ =>
                let* f0 := fiber_link o0 c ls in
                let* t0 := fiber_link c o1 ls in
                let* f1 := fiber_link o1 c ls in
                let* t1 := fiber_link c o0 ls in
                Ok (connect_eqpt f0 (eqpt_in_city_to_city c o0 es t West) t0 ++
                    connect_eqpt f1 (eqpt_in_city_to_city c o0 es t East) t1)
            | _ => Err "IndexError:site_degree"%string
            end = Ok cx ->
            cx = flat_map connect3 (match links_of c ls with l0 :: l1 :: _ => line_chains c t es l0 l1 | _ => [] end)).
  { intros t _ _ Hx. unfold fiber_dest_from_source in Hx.
    pose proof (fiber_link_out c ls) as Fo. pose proof (fiber_link_in c ls) as Fi.
    destruct (links_of c ls) as [|l0 [|l1 r]]; cbn [map] in Hx; try discriminate.
    rewrite (Fi l0 Hd Hl (or_introl eq_refl)) in Hx. cbn [bind] in Hx.
    rewrite (Fo l1 Hd Hl (or_intror (or_introl eq_refl))) in Hx. cbn [bind] in Hx.
    rewrite (Fi l1 Hd Hl (or_intror (or_introl eq_refl))) in Hx. cbn [bind] in Hx.
    rewrite (Fo l0 Hd Hl (or_introl eq_refl)) in Hx. cbn [bind] in Hx.
    inversion Hx. unfold line_chains. cbn [flat_map connect3 fst snd]. rewrite app_nil_r. reflexivity. }
  destruct (n_type n) eqn:T.
  - (* ROADM *)
    unfold fiber_dest_from_source in H. rewrite mapM_map in H.
    rewrite (mapM_all_ok _ (fun l => flat_map connect3 (roadm_chains c es l))) in H.
    + cbn [bind] in H. inversion H. rewrite flat_map_flat_map. reflexivity.
    + intros l Hl0. rewrite (fiber_link_out c ls l Hd Hl Hl0). cbn [bind].
      rewrite (fiber_link_in c ls l Hd Hl Hl0). cbn [bind]. unfold roadm_chains.
      cbn [flat_map connect3 fst snd]. rewrite app_nil_r. reflexivity.
  - apply (Hro TIla eq_refl); [discriminate | exact H].
  - apply (Hro TFused eq_refl); [discriminate | exact H].
Qed.
