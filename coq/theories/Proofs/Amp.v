(* C04 — proofs about the amplifier model: the saturation clamp over Q and at NumR; NF of the variable-gain model,
   ASE / gain accounting, band filter and flat gain profile at NumR (Coq reals). *)
From Coq Require Import Reals Psatz Lia List QArith Qminmax Rpower.
From Verif Require Import Prelude Num Model.Amp.
Import ListNotations.

(* ================================================================== clamp over Q (exact) *)
Section ClampQ.
Local Open Scope Q_scope.

Lemma clamp_le_set : forall g pmax pin, eff_gain_q g pmax pin <= g.
Proof. intros. unfold eff_gain_q. apply Q.le_min_l. Qed.

Lemma clamp_pmax : forall g pmax pin, pin + eff_gain_q g pmax pin <= pmax.
Proof.
  intros. unfold eff_gain_q.
  assert (H : Qmin g (pmax - pin) <= pmax - pin) by apply Q.le_min_r.
  lra.
Qed.

Lemma clamp_minimal : forall g pmax pin, eff_gain_q g pmax pin < g -> pin + eff_gain_q g pmax pin == pmax.
Proof.
  intros g pmax pin H. unfold eff_gain_q in *.
  destruct (Q.min_spec g (pmax - pin)) as [[_ E] | [_ E]]; rewrite E in *; lra.
Qed.

Lemma clamp_unsaturated : forall g pmax pin, pin + g <= pmax -> eff_gain_q g pmax pin == g.
Proof. intros g pmax pin H. unfold eff_gain_q. apply Q.min_l. lra. Qed.

(* the clamp is the largest gain that is at most the set gain and keeps the total output at most p_max *)
Lemma clamp_greatest : forall g pmax pin x, x <= g -> pin + x <= pmax -> x <= eff_gain_q g pmax pin.
Proof. intros g pmax pin x H1 H2. unfold eff_gain_q. apply Q.min_glb; lra. Qed.
End ClampQ.

Open Scope R_scope.
Notation ampR := (@amp NumR).
Notation chR := (@ch NumR).

(* ================================================================== helpers over R *)
Lemma nmax_R : forall a b : R, @nmax NumR a b = Rmax a b.
Proof.
  intros. unfold nmax. numR. unfold Rleb. destruct (Rle_dec a b) as [H|H].
  - rewrite Rmax_right; [reflexivity | exact H].
  - rewrite Rmax_left; [reflexivity | lra].
Qed.
Lemma nmin_R : forall a b : R, @nmin NumR a b = Rmin a b.
Proof.
  intros. unfold nmin. numR. unfold Rleb. destruct (Rle_dec a b) as [H|H].
  - rewrite Rmin_left; [reflexivity | exact H].
  - rewrite Rmin_right; [reflexivity | lra].
Qed.

(* the clamp as it sits in the executable model (same Gallina term that is run against gnpy) *)
Lemma eff_gain_le_set : forall g pmax pin : R, @eff_gain NumR g pmax pin <= g.
Proof. intros. unfold eff_gain. rewrite nmin_R. numR. apply Rmin_l. Qed.
Lemma eff_gain_pmax : forall g pmax pin : R, pin + @eff_gain NumR g pmax pin <= pmax.
Proof. intros. unfold eff_gain. rewrite nmin_R. numR. assert (H := Rmin_r g (pmax - pin)). lra. Qed.
Lemma eff_gain_minimal : forall g pmax pin : R, @eff_gain NumR g pmax pin < g -> pin + @eff_gain NumR g pmax pin = pmax.
Proof.
  intros g pmax pin. unfold eff_gain. rewrite nmin_R. numR. unfold Rmin. destruct (Rle_dec g (pmax - pin)); lra.
Qed.

Lemma ln10_pos : 0 < ln 10.
Proof. rewrite <- ln_1. apply ln_increasing; lra. Qed.

Lemma Rpow10_pos : forall x, 0 < Rpow10 x.
Proof. intros. unfold Rpow10. apply exp_pos. Qed.
Lemma Rpow10_plus : forall x y, Rpow10 (x + y) = Rpow10 x * Rpow10 y.
Proof. intros. unfold Rpow10. rewrite Rmult_plus_distr_r. apply exp_plus. Qed.
Lemma Rpow10_lt : forall x y, x < y -> Rpow10 x < Rpow10 y.
Proof. intros x y H. unfold Rpow10. apply exp_increasing. apply Rmult_lt_compat_r; [apply ln10_pos | exact H]. Qed.
Lemma Rpow10_le : forall x y, x <= y -> Rpow10 x <= Rpow10 y.
Proof. intros x y [H|H]; [left; apply Rpow10_lt; exact H | subst; right; reflexivity]. Qed.
Lemma Rlog10_pow10 : forall x, Rlog10 (Rpow10 x) = x.
Proof. intros. unfold Rlog10, Rpow10. rewrite ln_exp. (numR; field). apply Rgt_not_eq, ln10_pos. Qed.
Lemma Rpow10_log10 : forall y, 0 < y -> Rpow10 (Rlog10 y) = y.
Proof.
  intros y H. unfold Rlog10, Rpow10. replace (ln y / ln 10 * ln 10) with (ln y).
  - apply exp_ln. exact H.
  - (numR; field). apply Rgt_not_eq, ln10_pos.
Qed.
Lemma Rlog10_le : forall x y, 0 < x -> x <= y -> Rlog10 x <= Rlog10 y.
Proof.
  intros x y Hx [H|H].
  - unfold Rlog10. apply Rmult_le_compat_r; [left; apply Rinv_0_lt_compat, ln10_pos|]. left. apply ln_increasing; assumption.
  - subst. right. reflexivity.
Qed.

Notation db2linR := (@db2lin NumR).
Notation lin2dbR := (@lin2db NumR).

Lemma db2lin_pos : forall x : R, 0 < db2linR x.
Proof. intros. unfold db2lin. numR. apply Rpow10_pos. Qed.
Lemma db2lin_le : forall x y : R, x <= y -> db2linR x <= db2linR y.
Proof. intros. unfold db2lin. numR. apply Rpow10_le. lra. Qed.
Lemma db2lin_minus : forall x y : R, db2linR (x - y) = db2linR x / db2linR y.
Proof.
  intros. unfold db2lin. numR.
  assert (H := Rpow10_plus ((x - y) / 10) (y / 10)). replace ((x - y) / 10 + y / 10) with (x / 10) in H by (numR; field).
  rewrite H. (numR; field). apply Rgt_not_eq, Rpow10_pos.
Qed.
Lemma lin2db_db2lin : forall x : R, lin2dbR (db2linR x) = x.
Proof. intros. unfold lin2db, db2lin. numR. rewrite Rlog10_pow10. (numR; field). Qed.
Lemma db2lin_lin2db : forall y : R, 0 < y -> db2linR (lin2dbR y) = y.
Proof.
  intros y H. unfold lin2db, db2lin. numR. replace (10 * Rlog10 y / 10) with (Rlog10 y) by (numR; field).
  apply Rpow10_log10. exact H.
Qed.
Lemma lin2db_le : forall x y : R, 0 < x -> x <= y -> lin2dbR x <= lin2dbR y.
Proof. intros x y Hx H. unfold lin2db. numR. assert (H1 := Rlog10_le x y Hx H). lra. Qed.

(* Coq's ln is 0 outside of its domain: a positive dB value can only come from a positive linear value *)
Lemma lin2db_pos_inv : forall y : R, 0 < lin2dbR y -> 0 < y.
Proof.
  intros y H. unfold lin2db in H. numR. unfold Rlog10 in H.
  destruct (Rlt_dec 0 y) as [Hy|Hy]; [exact Hy|].
  exfalso. unfold ln in H. destruct (Rlt_dec 0 y) as [Hy'|_]; [contradiction|].
  unfold Rdiv in H. rewrite Rmult_0_l, Rmult_0_r in H. lra.
Qed.

(* ================================================================== NF of the variable-gain model *)
Notation nf_variableR := (@nf_variable NumR).

(* the formula with max written as Rmax *)
Lemma nf_variable_eq : forall nf1 nf2 dp gmin gmax g : R,
  nf_variableR nf1 nf2 dp gmin gmax g =
  lin2dbR (db2linR nf1 + db2linR nf2 / db2linR (g + Rmax (gmin - g) 0 - dp - Rmax (gmax - (g + Rmax (gmin - g) 0)) 0))
  + Rmax (gmin - g) 0.
Proof. intros. unfold nf_variable. rewrite !nmax_R. numR. rewrite ?nmax_R. reflexivity. Qed.

(* below gain_min the amplifier is padded: NF grows dB for dB *)
Theorem nf_pad : forall nf1 nf2 dp gmin gmax g : R, g < gmin ->
  nf_variableR nf1 nf2 dp gmin gmax g = nf_variableR nf1 nf2 dp gmin gmax gmin + (gmin - g).
Proof.
  intros. rewrite !nf_variable_eq.
  replace (gmin - gmin) with 0 by (numR; ring). rewrite (Rmax_left 0 0) by lra.
  rewrite (Rmax_left (gmin - g) 0) by lra.
  replace (g + (gmin - g)) with gmin by (numR; ring). replace (gmin + 0) with gmin by (numR; ring). numR. (numR; ring).
Qed.

(* from gain_min upwards NF never increases with gain *)
Theorem nf_antitone : forall nf1 nf2 dp gmin gmax g g' : R, gmin <= g -> g <= g' ->
  nf_variableR nf1 nf2 dp gmin gmax g' <= nf_variableR nf1 nf2 dp gmin gmax g.
Proof.
  intros nf1 nf2 dp gmin gmax g g' H1 H2. rewrite !nf_variable_eq.
  rewrite (Rmax_right (gmin - g) 0) by lra. rewrite (Rmax_right (gmin - g') 0) by lra.
  replace (g + 0) with g by (numR; ring). replace (g' + 0) with g' by (numR; ring).
  apply Rplus_le_compat_r.
  assert (Hg : g - dp - Rmax (gmax - g) 0 <= g' - dp - Rmax (gmax - g') 0).
  { assert (Rmax (gmax - g') 0 <= Rmax (gmax - g) 0).
    { apply Rmax_lub; [eapply Rle_trans; [|apply Rmax_l]; lra | apply Rmax_r]. }
    lra. }
  assert (P1 := db2lin_pos nf1). assert (P2 := db2lin_pos nf2).
  assert (Pa := db2lin_pos (g - dp - Rmax (gmax - g) 0)). assert (Pb := db2lin_pos (g' - dp - Rmax (gmax - g') 0)).
  assert (Hd := db2lin_le _ _ Hg).
  apply lin2db_le.
  - apply Rplus_lt_0_compat; [exact P1 | apply Rdiv_lt_0_compat; assumption].
  - apply Rplus_le_compat_l. unfold Rdiv. apply Rmult_le_compat_l; [lra|].
    apply Rinv_le_contravar; assumption.
Qed.

Notation nf_solveR := (@nf_solve NumR).

(* the 2x2 solve of estimate_nf_model: nf_min at maximum flat gain, nf_max at minimum gain.
   Hyp. Y: the first-coil NF is a positive linear quantity (implied by the code's check nf1 >= 4 dB, see
   estimate_first_coil_pos below) *)
Lemma nf_solve_spec : forall gmin gmax nfmin nfmax : R,
  gmin < gmax -> nfmin < nfmax ->
  let '(nf1, nf2, dp) := nf_solveR gmin gmax nfmin nfmax in
  0 < db2linR nfmin - db2linR nf2 / db2linR (gmax - dp) ->
  nf_variableR nf1 nf2 dp gmin gmax gmax = nfmin /\ nf_variableR nf1 nf2 dp gmin gmax gmin = nfmax.
Proof.
  intros gmin gmax nfmin nfmax Hg Hn. unfold nf_solve. numR.
  set (A := db2linR nfmin). set (B := db2linR nfmax).
  set (Gmax := db2linR (gmax - 5)). set (Gmin := db2linR (gmin - (gmax - gmin) - 5)).
  set (X := (A - B) / (1 / Gmax - 1 / Gmin)).
  assert (PA : 0 < A) by apply db2lin_pos. assert (PB : 0 < B) by apply db2lin_pos.
  assert (PGmax : 0 < Gmax) by apply db2lin_pos. assert (PGmin : 0 < Gmin) by apply db2lin_pos.
  assert (HAB : A < B).
  { unfold A, B, db2lin. numR. apply Rpow10_lt. lra. }
  assert (HG : Gmin < Gmax).
  { unfold Gmin, Gmax, db2lin. numR. apply Rpow10_lt. lra. }
  assert (Hden : 1 / Gmax - 1 / Gmin < 0).
  { unfold Rdiv. rewrite !Rmult_1_l. assert (/ Gmax < / Gmin) by (apply Rinv_lt_contravar; [nra | exact HG]). lra. }
  assert (PX : 0 < X).
  { unfold X. unfold Rdiv at 1. replace ((A - B) * / (1 / Gmax - 1 / Gmin)) with ((B - A) * / - (1 / Gmax - 1 / Gmin)).
    - apply Rmult_lt_0_compat; [lra | apply Rinv_0_lt_compat; lra].
    - (numR; field). lra. }
  rewrite (db2lin_lin2db X PX). intros PY.
  set (Y := A - X / Gmax) in *.
  rewrite !nf_variable_eq. rewrite !(db2lin_lin2db Y PY). rewrite !(db2lin_lin2db X PX).
  replace (gmin - gmax) with (- (gmax - gmin)) by (numR; ring).
  rewrite (Rmax_right (- (gmax - gmin)) 0) by lra.
  replace (gmin - gmin) with 0 by (numR; ring). rewrite (Rmax_left 0 0) by lra.
  replace (gmax + 0) with gmax by (numR; ring). replace (gmin + 0) with gmin by (numR; ring).
  replace (gmax - gmax) with 0 by (numR; ring). rewrite (Rmax_left 0 0) by lra.
  rewrite (Rmax_left (gmax - gmin) 0) by lra.
  replace (gmax - 5 - 0) with (gmax - 5) by (numR; ring).
  replace (gmin - 5 - (gmax - gmin)) with (gmin - (gmax - gmin) - 5) by (numR; ring).
  fold Gmax Gmin. split.
  - replace (Y + X / Gmax) with A by (unfold Y; (numR; ring)). unfold A. rewrite lin2db_db2lin. (numR; ring).
  - replace (Y + X / Gmin) with B.
    + unfold B. rewrite lin2db_db2lin. (numR; ring).
    + unfold Y, X. (numR; field). repeat split; lra.
Qed.

Notation estimateR := (@estimate_nf_model NumR).
Notation iscloseR := (@isclose001 NumR).

Lemma Rltb_true : forall a b, Rltb a b = true -> a < b.
Proof. intros a b. unfold Rltb. destruct (Rlt_dec a b); [tauto | discriminate]. Qed.
Lemma Rltb_false : forall a b, Rltb a b = false -> b <= a.
Proof. intros a b. unfold Rltb. destruct (Rlt_dec a b); [discriminate | lra]. Qed.

(* whatever branch estimate_nf_model takes, an accepted datasheet is reproduced by the NF model within the
   tolerance of the code's own check (0.01 dB): NF(gain_flatmax) ~ nf_min, NF(gain_min) ~ nf_max *)
Theorem estimate_reproduces_datasheet : forall gmin gmax nfmin nfmax nf1 nf2 dp : R,
  gmin <= gmax ->
  estimateR gmin gmax nfmin nfmax = Ok (nf1, nf2, dp) ->
  iscloseR nfmin (nf_variableR nf1 nf2 dp gmin gmax gmax) = true /\
  iscloseR nfmax (nf_variableR nf1 nf2 dp gmin gmax gmin) = true.
Proof.
  intros gmin gmax nfmin nfmax nf1 nf2 dp Hg H.
  assert (Shape : forall a b c : R,
           nf_variableR a b c gmin gmax gmax = @calc_nf_at NumR a b (gmax - c) /\
           nf_variableR a b c gmin gmax gmin = @calc_nf_at NumR a b (gmin - (gmax - gmin) - c)).
  { intros a b c. rewrite !nf_variable_eq. unfold calc_nf_at. numR.
    replace (gmin - gmin) with 0 by (numR; ring). rewrite (Rmax_left 0 0) by lra.
    rewrite (Rmax_right (gmin - gmax) 0) by lra.
    replace (gmax + 0) with gmax by (numR; ring). replace (gmin + 0) with gmin by (numR; ring).
    replace (gmax - gmax) with 0 by (numR; ring). rewrite (Rmax_left 0 0) by lra.
    rewrite (Rmax_left (gmax - gmin) 0) by lra.
    replace (gmax - c - 0) with (gmax - c) by (numR; ring).
    replace (gmin - c - (gmax - gmin)) with (gmin - (gmax - gmin) - c) by (numR; ring).
    split; (numR; ring). }
  unfold estimate_nf_model in H. numR.
  match type of H with (if ?c then _ else _) = _ => destruct c; [discriminate|] end.
  match type of H with (if ?c then _ else _) = _ => destruct c; [discriminate|] end.
  match type of H with (if ?c then _ else _) = _ => destruct c; [discriminate|] end.
  match type of H with (if ?c then _ else _) = _ => destruct c end.
  - (* unclipped *)
    match type of H with (if negb ?c then _ else _) = _ => destruct c eqn:E1; cbn [negb] in H; [|discriminate] end.
    match type of H with (if negb ?c then _ else _) = _ => destruct c eqn:E2; cbn [negb] in H; [|discriminate] end.
    injection H as <- <- <-.
    match goal with |- iscloseR _ (nf_variableR ?a ?b ?c _ _ _) = true /\ _ => destruct (Shape a b c) as [S1 S2] end.
    rewrite S1, S2. split; assumption.
  - (* clipped *)
    match type of H with (if ?c then _ else _) = _ => destruct c; [|discriminate] end.
    match type of H with (if negb ?c then _ else _) = _ => destruct c eqn:E1; cbn [negb] in H; [|discriminate] end.
    match type of H with (if negb ?c then _ else _) = _ => destruct c eqn:E2; cbn [negb] in H; [|discriminate] end.
    injection H as <- <- <-.
    match goal with |- iscloseR _ (nf_variableR ?a ?b ?c _ _ _) = true /\ _ => destruct (Shape a b c) as [S1 S2] end.
    rewrite S1, S2.
    match goal with |- context [gmax - (gmax - ?x)] => replace (gmax - (gmax - x)) with x by (numR; ring) end.
    split; assumption.
Qed.

(* the code's check "nf1 >= 4 dB" makes the first-coil NF a genuine positive linear quantity *)
Lemma estimate_first_coil_pos : forall y : R, Rltb (lin2dbR y) 4 = false -> 0 < y.
Proof. intros y H. apply Rltb_false in H. apply lin2db_pos_inv. lra. Qed.

(* the unclipped branch returns exactly the 2x2 solve, hence nf_min / nf_max are met exactly *)
Theorem estimate_unclipped_exact : forall gmin gmax nfmin nfmax nf1 nf2 dp : R,
  gmin < gmax -> nfmin < nfmax ->
  estimateR gmin gmax nfmin nfmax = Ok (nf1, nf2, dp) ->
  nf1 + 3 / 10 < nf2 < nf1 + 2 ->
  (let '(a, b, _) := nf_solveR gmin gmax nfmin nfmax in a + 3 / 10 < b < a + 2) ->
  nf_variableR nf1 nf2 dp gmin gmax gmax = nfmin /\ nf_variableR nf1 nf2 dp gmin gmax gmin = nfmax.
Proof.
  intros gmin gmax nfmin nfmax nf1 nf2 dp Hg Hn H _ Hun.
  assert (Spec := nf_solve_spec gmin gmax nfmin nfmax Hg Hn).
  unfold estimate_nf_model in H. unfold nf_solve in *. numR.
  match type of H with (if ?c then _ else _) = _ => destruct c; [discriminate|] end.
  match type of H with (if ?c then _ else _) = _ => destruct c; [discriminate|] end.
  match type of H with (if ?c then _ else _) = _ => destruct c eqn:Ecoil; [discriminate|] end.
  set (X := (db2linR nfmin - db2linR nfmax) / (1 / db2linR (gmax - 5) - 1 / db2linR (gmin - (gmax - gmin) - 5))) in *.
  set (NF2 := lin2dbR X) in *.
  set (NF1 := lin2dbR (db2linR nfmin - db2linR NF2 / db2linR (gmax - 5))) in *.
  assert (PY := estimate_first_coil_pos _ Ecoil).
  destruct (Spec PY) as [S1 S2].
  match type of H with (if ?c then _ else _) = _ => destruct c eqn:Ecl end.
  - match type of H with (if negb ?c then _ else _) = _ => destruct c; cbn [negb] in H; [|discriminate] end.
    match type of H with (if negb ?c then _ else _) = _ => destruct c; cbn [negb] in H; [|discriminate] end.
    injection H as <- <- <-. split; assumption.
  - exfalso. assert (D : @dec NumR 3 (-1) = 3 / 10) by reflexivity.
    apply Bool.andb_false_iff in Ecl. rewrite D in Ecl.
    destruct Ecl as [E|E]; apply Rltb_false in E; lra.
Qed.

(* ================================================================== ASE and gain accounting *)
Notation amp_chR := (@amp_ch NumR).
Notation planckR := (@planck NumR).
Notation odb2linR := (@odb2lin NumR).

(* ASE at the output = channel gain x (ASE already present + h f B NF referred to the input) *)
Theorem edfa_ase_out : forall (ov : R) (c : chR) nf (g : R),
  k_ase (amp_chR ov c nf g) = db2linR (g - ov) * (k_ase c + planckR * k_B c * k_f c * odb2linR nf).
Proof. intros. unfold amp_ch, scale_ch, add_ase_ch, ase_in. cbn [k_ase k_B k_f]. numR. (numR; ring). Qed.

Theorem edfa_signal_gain : forall (ov : R) (c : chR) nf (g : R),
  k_sig (amp_chR ov c nf g) = db2linR (g - ov) * k_sig c /\ k_nli (amp_chR ov c nf g) = db2linR (g - ov) * k_nli c /\
  k_f (amp_chR ov c nf g) = k_f c /\ k_B (amp_chR ov c nf g) = k_B c /\ k_sw (amp_chR ov c nf g) = k_sw c.
Proof. intros. unfold amp_ch, scale_ch, add_ase_ch. cbn [k_sig k_nli k_f k_B k_sw]. numR. repeat split; (numR; ring). Qed.

(* the quantum-limited ASE for a finite NF: h f B 10^(NF/10) *)
Lemma ase_in_formula : forall (c : chR) (nf : R),
  @ase_in NumR c (Some nf) = planckR * k_B c * k_f c * Rpow10 (nf / 10).
Proof. intros. unfold ase_in, odb2lin, db2lin. numR. reflexivity. Qed.

(* ---- structure of the result of Edfa.propagate / __call__ *)
Lemma map2_length : forall A B C (f : A -> B -> C) l m, length (map2 f l m) = Nat.min (length l) (length m).
Proof. intros A B C f l. induction l as [|a t IH]; intros [|b m]; cbn; try reflexivity. rewrite IH. reflexivity. Qed.

Lemma gain_profile_length : forall (a : ampR) freqs pin dgt ripple (pin_db eff : R),
  length ripple = length dgt -> length (gain_profile a freqs pin dgt ripple pin_db eff) = length dgt.
Proof.
  intros a freqs pin dgt ripple pin_db eff HL. unfold gain_profile.
  assert (Hbase : length (@normalise NumR (g1st_of a freqs dgt ripple) eff) = length dgt).
  { unfold normalise, g1st_of. rewrite map_length, map2_length, HL. apply Nat.min_id. }
  destruct dgt as [|d0 [|d1 t]].
  - match goal with |- context [if ?c then _ else _] => destruct c end.
    + exact Hbase.
    + unfold tilt_by. rewrite map2_length, Hbase. reflexivity.
  - reflexivity.
  - match goal with |- context [if ?c then _ else _] => destruct c end.
    + exact Hbase.
    + unfold tilt_by. rewrite map2_length, Hbase. apply Nat.min_id.
Qed.


Lemma finish_out : forall (a : ampR) (chs : list chR) (nf : list (option R)) (gp : list R),
  length nf = length chs -> length gp = length chs ->
  length (map2 (fun (cn : chR * option R) g => amp_chR (a_out_voa a) (fst cn) (snd cn) g) (combine chs nf) gp) = length chs
  /\ map k_f (map2 (fun (cn : chR * option R) g => amp_chR (a_out_voa a) (fst cn) (snd cn) g) (combine chs nf) gp) = map k_f chs.
Proof.
  intros a chs. induction chs as [|c t IH]; intros [|n nf] [|g gp] H1 H2; cbn in *; try discriminate; try (split; reflexivity).
  destruct (IH nf gp) as [I1 I2]; [lia | lia |]. rewrite I1, I2. split; reflexivity.
Qed.

(* Edfa.propagate: the result is edfa_finish on (channels after the input VOA, total input power, clamped gain,
   one NF and one gain per channel) *)
Lemma edfa_propagate_inv : forall (a : ampR) sel o,
  edfa_propagate a sel = Ok o ->
  exists (pin_db eff : R) nf gp,
    o = edfa_finish a (in_voa_chs a sel) pin_db eff nf gp /\
    length nf = length sel /\ length gp = length sel /\
    eff = @eff_gain NumR (a_gain_target a) (a_p_max a) pin_db /\
    pin_db = @watt2dbm NumR (@nsum NumR (map k_pch (in_voa_chs a sel))).
Proof.
  intros a sel o H. unfold edfa_propagate in H.
  assert (Lv : length (in_voa_chs a sel) = length sel).
  { unfold in_voa_chs. destruct (a_in_voa a); [apply map_length | reflexivity]. }
  set (chs := in_voa_chs a sel) in *. clearbody chs.
  destruct chs as [|c0 t]; try discriminate.
  injection H as <-. do 4 eexists. split; [reflexivity|].
  unfold edfa_nf, edfa_gp, grid_interp. rewrite !map_length. split; [exact Lv|]. split.
  - rewrite gain_profile_length; rewrite !map_length; [exact Lv | reflexivity].
  - split; reflexivity.
Qed.

(* every selected channel comes out, as amp_ch of (the channel after the input VOA, its NF, its gain) *)
Theorem edfa_propagate_channels : forall (a : ampR) sel o,
  edfa_propagate a sel = Ok o ->
  o_out o = map2 (fun cn g => amp_chR (a_out_voa a) (fst cn) (snd cn) g) (combine (in_voa_chs a sel) (o_nf o)) (o_gprofile o)
  /\ o_ase_in o = map2 (@ase_in NumR) (in_voa_chs a sel) (o_nf o)
  /\ length (o_nf o) = length sel /\ length (o_gprofile o) = length sel /\ length (o_out o) = length sel
  /\ map k_f (o_out o) = map k_f sel
  /\ o_eff o = @eff_gain NumR (a_gain_target a) (a_p_max a) (o_pin_db o)
  /\ o_pin_db o = @watt2dbm NumR (@nsum NumR (map k_pch (in_voa_chs a sel))).
Proof.
  intros a sel o H. destruct (edfa_propagate_inv a sel o H) as (pin_db & eff & nf & gp & -> & Ln & Lg & He & Hp).
  assert (Lv : length (in_voa_chs a sel) = length sel).
  { unfold in_voa_chs. destruct (a_in_voa a); [apply map_length | reflexivity]. }
  assert (Fv : map k_f (in_voa_chs a sel) = map k_f sel).
  { unfold in_voa_chs. destruct (a_in_voa a); [|reflexivity]. rewrite map_map. apply map_ext. intros c. reflexivity. }
  unfold edfa_finish. cbn [o_out o_nf o_gprofile o_eff o_pin_db o_ase_in].
  destruct (finish_out a (in_voa_chs a sel) nf gp) as [L1 L2]; [rewrite Lv; exact Ln | rewrite Lv; exact Lg |].
  split; [reflexivity|]. split; [reflexivity|]. split; [exact Ln|]. split; [exact Lg|].
  split; [exact (eq_trans L1 Lv)|]. split; [exact (eq_trans L2 Fv)|]. split; [exact He | exact Hp].
Qed.

Theorem clamp_in_model : forall (a : ampR) sel o,
  edfa_propagate a sel = Ok o ->
  o_eff o = @eff_gain NumR (a_gain_target a) (a_p_max a) (o_pin_db o) /\
  o_pin_db o = @watt2dbm NumR (@nsum NumR (map k_pch (in_voa_chs a sel))) /\
  o_eff o <= a_gain_target a /\ o_pin_db o + o_eff o <= a_p_max a /\
  (o_eff o < a_gain_target a -> o_pin_db o + o_eff o = a_p_max a).
Proof.
  intros a sel o H. destruct (edfa_propagate_channels a sel o H) as (_ & _ & _ & _ & _ & _ & He & Hp).
  split; [exact He|]. split; [exact Hp|]. rewrite He.
  split; [apply eff_gain_le_set|]. split; [apply eff_gain_pmax | apply eff_gain_minimal].
Qed.

(* out-of-band channels are not amplified: the channels that leave Edfa.__call__ are exactly the in-band ones *)
Theorem edfa_band : forall (a : ampR) chans o,
  edfa_call a chans = Ok o -> map k_f (o_out o) = map k_f (filter (in_band (a_f_min a) (a_f_max a)) chans).
Proof.
  intros a chans o H. unfold edfa_call in H.
  destruct (filter (in_band (a_f_min a) (a_f_max a)) chans) as [|c t] eqn:E; [discriminate|].
  destruct (edfa_propagate_channels a (c :: t) o H) as (_ & _ & _ & _ & _ & F & _). exact F.
Qed.

(* ================================================================== flat gain profile *)
Lemma nsum_pos : forall l : list R, l <> [] -> Forall (fun x => 0 < x) l -> 0 < @nsum NumR l.
Proof.
  intros l Hne H. induction H as [|x t Hx Ht IH]; [congruence|]. cbn [nsum fold_right]. numR.
  destruct t as [|y t']; [cbn; lra|]. assert (0 < @nsum NumR (y :: t')) by (apply IH; discriminate).
  unfold nsum in *. numR. lra.
Qed.

Lemma nsum_scale : forall (k : R) (l : list R), @nsum NumR (map (fun x => x * k) l) = @nsum NumR l * k.
Proof.
  intros k l. unfold nsum. induction l as [|x t IH]; cbn [fold_right map]; numR; [lra|]. rewrite IH. lra.
Qed.

(* g1st - voa: the mean of the linear per-channel gains equals the effective gain *)
Theorem normalise_mean : forall (g1st : list R) (eff : R), g1st <> [] ->
  @nmean NumR (map db2linR (@normalise NumR g1st eff)) = db2linR eff.
Proof.
  intros g1st eff Hne. unfold normalise. numR.
  set (M := @nmean NumR (map db2linR g1st)).
  assert (Hn : 0 < INR (length g1st)). { apply lt_0_INR. destruct g1st; [congruence | cbn; lia]. }
  assert (PM : 0 < M).
  { unfold M, nmean, nlen. numR. rewrite map_length. rewrite <- INR_IZR_INZ. apply Rdiv_lt_0_compat; [|exact Hn].
    apply nsum_pos; [destruct g1st; [congruence | discriminate]|].
    apply Forall_forall. intros x Hx. apply in_map_iff in Hx. destruct Hx as (y & <- & _). apply db2lin_pos. }
  set (voa := lin2dbR M - eff).
  rewrite map_map.
  rewrite (map_ext (fun g => db2linR (g - voa)) (fun g => db2linR g * (/ db2linR voa))).
  2:{ intros g. rewrite db2lin_minus. reflexivity. }
  unfold nmean at 1, nlen. numR. rewrite map_length.
  rewrite <- (map_map db2linR (fun x => x * / db2linR voa)). rewrite nsum_scale.
  assert (Hvoa : db2linR voa = M / db2linR eff).
  { unfold voa. rewrite db2lin_minus, db2lin_lin2db by exact PM. reflexivity. }
  rewrite Hvoa. unfold M at 1, nmean, nlen. numR. rewrite map_length. rewrite <- INR_IZR_INZ in *.
  assert (Pe := db2lin_pos eff).
  assert (PS : 0 < @nsum NumR (map db2linR g1st)).
  { apply nsum_pos; [destruct g1st; [congruence | discriminate]|].
    apply Forall_forall. intros x Hx. apply in_map_iff in Hx. destruct Hx as (y & <- & _). apply db2lin_pos. }
  (numR; field). repeat split; lra.
Qed.

(* when the first estimate has (almost) no ripple/tilt the profile returned is the normalised first estimate *)
Theorem flat_profile_mean : forall (a : ampR) freqs pin dgt ripple (pin_db eff : R),
  (1 <= length dgt)%nat -> length ripple = length dgt ->
  Rabs (@deltax_of NumR (g1st_of a freqs dgt ripple)) <= 5 / 100 ->
  @nmean NumR (map db2linR (gain_profile a freqs pin dgt ripple pin_db eff)) = db2linR eff.
Proof.
  intros a freqs pin dgt ripple pin_db eff H2 HL Hd. unfold gain_profile.
  destruct dgt as [|d0 [|d1 t]]; cbn [length] in H2; try lia.
  { (* a single channel: the profile is [effective_gain] *)
    unfold nmean, nlen, nsum. cbn [map fold_right length Z.of_nat Pos.of_succ_nat]. numR. lra. }
  assert (Hc : (@nleb NumR (@nabs NumR (@deltax_of NumR (g1st_of a freqs (d0 :: d1 :: t) ripple))) (@dec NumR 5 (-2))) = true).
  { numR. unfold Rleb. destruct (Rle_dec _ _) as [|Hn]; [reflexivity|]. exfalso. apply Hn.
    unfold dec. cbn. numR. lra. }
  rewrite Hc. apply normalise_mean.
  unfold g1st_of. destruct ripple as [|r0 rt]; [cbn in HL; discriminate|]. cbn. discriminate.
Qed.

(* ================================================================== the DGT branch of _gain_profile: one secant step *)
Notation secant_stepR := (@secant_step NumR).

Lemma dec_1em11 : @dec NumR 1 (-11) = 1 / 100000000000.
Proof. reflexivity. Qed.

(* the DGT scaling returned is where the affine interpolant of the measured average gain through the centre probe and
   the low (resp. high) probe takes the value eff; when the centre probe already hits eff (1e-11) it is kept *)
Theorem secant_consistent : forall eff xc gc xl gl xh gh : R,
  let x3 := secant_stepR eff xc gc xl gl xh gh in
  (Rabs (eff - gc) <= 1 / 100000000000 -> x3 = xc) /\
  (1 / 100000000000 < Rabs (eff - gc) -> eff < gc -> gl <> gc -> xl <> xc ->
     gc + (gl - gc) / (xl - xc) * (x3 - xc) = eff) /\
  (1 / 100000000000 < Rabs (eff - gc) -> gc <= eff -> gc <> gh -> xc <> xh ->
     gc + (gc - gh) / (xc - xh) * (x3 - xc) = eff).
Proof.
  intros eff xc gc xl gl xh gh x3. unfold x3, secant_step. rewrite dec_1em11. numR. unfold Rleb, Rltb.
  split; [|split].
  - intros H. destruct (Rle_dec _ _) as [|Hn]; [reflexivity | contradiction].
  - intros H Hlt Hg Hx. destruct (Rle_dec _ _) as [Hle|_]; [lra|].
    destruct (Rlt_dec eff gc) as [_|Hn]; [|contradiction]. field. split; lra.
  - intros H Hle Hg Hx. destruct (Rle_dec _ _) as [Hle'|_]; [lra|].
    destruct (Rlt_dec eff gc) as [Hn|_]; [lra|]. field. split; lra.
Qed.

(* and that scaling is what the returned profile is built with *)
Theorem gain_profile_dgt_branch : forall (a : ampR) freqs pin dgt ripple (pin_db eff : R),
  (2 <= length dgt)%nat ->
  5 / 100 < Rabs (@deltax_of NumR (g1st_of a freqs dgt ripple)) ->
  let g1st := g1st_of a freqs dgt ripple in
  let base := @normalise NumR g1st eff in
  let gavg := fun x : R => @gavg_of NumR pin (@tilt_by NumR base dgt x) pin_db in
  let xc := eff - @gavg_of NumR pin base pin_db in
  let dx := @deltax_of NumR g1st in
  gain_profile a freqs pin dgt ripple pin_db eff =
  @tilt_by NumR base dgt (secant_stepR eff xc (gavg xc) (xc - dx) (gavg (xc - dx)) (xc + dx) (gavg (xc + dx))).
Proof.
  intros a freqs pin dgt ripple pin_db eff H2 Hd. unfold gain_profile.
  destruct dgt as [|d0 [|d1 t]]; cbn [length] in H2; try lia.
  assert (Hc : (@nleb NumR (@nabs NumR (@deltax_of NumR (g1st_of a freqs (d0 :: d1 :: t) ripple))) (@dec NumR 5 (-2))) = false).
  { numR. unfold Rleb. destruct (Rle_dec _ _) as [Hle|]; [|reflexivity]. exfalso.
    assert (D : @dec NumR 5 (-2) = 5 / 100) by reflexivity. rewrite D in Hle. lra. }
  cbv zeta. rewrite Hc. reflexivity.
Qed.

(* ================================================================== the other NF models *)
Notation nf_stageR := (@nf_stage NumR).
Notation polyvalR := (@polyval NumR).

Lemma polyval4 : forall a b c d x : R, polyvalR [a; b; c; d] x = a * x ^ 3 + b * x ^ 2 + c * x + d.
Proof. intros. unfold polyval. cbn [fold_left]. numR. ring. Qed.

(* fixed gain: NF = nf0 inside the gain range, + (gain_min - g) of input padding below it *)
Theorem nf_fixed : forall (nf0 gmin gmax g pin nch sw : R),
  fst (nf_stageR (@mkStage NumR (@NFFixed NumR nf0) gmin gmax) g pin nch sw) = Some (nf0 + Rmax (gmin - g) 0).
Proof. intros. unfold nf_stage. cbn [st_model st_gain_min st_gain_flatmax fst oadd]. rewrite !nmax_R. numR. reflexivity. Qed.

Theorem nf_fixed_const : forall (nf0 gmin gmax g pin nch sw : R), gmin <= g ->
  fst (nf_stageR (@mkStage NumR (@NFFixed NumR nf0) gmin gmax) g pin nch sw) = Some nf0.
Proof. intros. rewrite nf_fixed. rewrite Rmax_right by lra. f_equal. lra. Qed.

(* channel input power referred to a 50 GHz slot, as used by the OpenROADM models *)
Definition pin50 (pin_db nch sw : R) : R := pin_db - lin2dbR nch + lin2dbR (50000000000 / sw).

Lemma dec_50e9 : @dec NumR 5 10 = 50000000000.
Proof. unfold dec. cbn. numR. lra. Qed.

(* OpenROADM ILA: OSNR contribution = polynomial of the 50 GHz input power; NF = Pin + 58 - OSNR (+ padding) *)
Theorem nf_openroadm : forall (coef : list R) (gmin gmax g pin nch sw : R),
  fst (nf_stageR (@mkStage NumR (@NFOpenroadm NumR coef) gmin gmax) g pin nch sw) =
  Some (pin50 pin nch sw - polyvalR coef (pin50 pin nch sw) + 58 + Rmax (gmin - g) 0).
Proof.
  intros. unfold nf_stage, pin50. cbn [st_model st_gain_min st_gain_flatmax fst oadd]. rewrite !nmax_R, dec_50e9. numR. reflexivity.
Qed.

Theorem nf_openroadm_preamp : forall (gmin gmax g pin nch sw : R),
  fst (nf_stageR (@mkStage NumR (@NFOpenroadmPreamp NumR) gmin gmax) g pin nch sw) =
  Some (pin50 pin nch sw - Rmin ((4 * pin50 pin nch sw + 275) / 7) 33 + 58 + Rmax (gmin - g) 0).
Proof.
  intros. unfold nf_stage, pin50. cbn [st_model st_gain_min st_gain_flatmax fst oadd]. rewrite !nmax_R, nmin_R, dec_50e9. numR. reflexivity.
Qed.

(* the OpenROADM booster is noiseless: no ASE whatever the channel *)
Theorem nf_openroadm_booster : forall (gmin gmax g pin nch sw : R) (c : chR),
  fst (nf_stageR (@mkStage NumR (@NFOpenroadmBooster NumR) gmin gmax) g pin nch sw) = None /\
  @ase_in NumR c None = 0.
Proof. intros. split; [reflexivity|]. unfold ase_in, odb2lin. numR. ring. Qed.

(* advanced model: polynomial in the gain decrease below gain_flatmax (+ padding) *)
Theorem nf_advanced : forall (fit : list R) (gmin gmax g pin nch sw : R),
  fst (nf_stageR (@mkStage NumR (@NFAdvanced NumR fit) gmin gmax) g pin nch sw) =
  Some (polyvalR fit (- Rmax (gmax - (g + Rmax (gmin - g) 0)) 0) + Rmax (gmin - g) 0).
Proof. intros. unfold nf_stage. cbn [st_model st_gain_min st_gain_flatmax fst oadd]. rewrite !nmax_R. numR. rewrite ?nmax_R. reflexivity. Qed.

(* variable gain: nf_stage is nf_variable *)
Lemma nf_stage_variable : forall (nf1 nf2 dp gmin gmax g pin nch sw : R),
  fst (nf_stageR (@mkStage NumR (@NFVariable NumR nf1 nf2 dp) gmin gmax) g pin nch sw) = Some (nf_variableR nf1 nf2 dp gmin gmax g).
Proof. intros. unfold nf_stage, nf_variable. cbn [st_model st_gain_min st_gain_flatmax fst oadd]. reflexivity. Qed.

(* ---- dual stage *)
Notation calc_nf_avgR := (@calc_nf_avg NumR).

(* Friis form of what the code computes: the preamp runs at its maximum flat gain g1, the booster gets eff - g1 *)
Theorem nf_dual_friis : forall (pre boost : @stage NumR) (eff pin nch sw : R),
  let g1 := st_gain_flatmax pre in
  let n1 := fst (nf_stageR pre g1 pin nch sw) in
  let n2 := fst (nf_stageR boost (eff - g1) pin nch sw) in
  calc_nf_avgR (@Dual NumR pre boost) eff pin nch sw = Some (lin2dbR (odb2linR n1 + odb2linR n2 / db2linR g1)).
Proof.
  intros. unfold calc_nf_avg. fold g1. numR. fold n1 n2. f_equal. f_equal. f_equal.
  destruct n2 as [x|]; cbn [oadd odb2lin].
  - numR. replace (x + - g1) with (x - g1) by lra. apply db2lin_minus.
  - numR. unfold Rdiv. rewrite Rmult_0_l. reflexivity.
Qed.

Lemma odb2lin_nonneg : forall n, 0 <= odb2linR n.
Proof. intros [x|]; cbn [odb2lin]; [left; apply db2lin_pos | numR; lra]. Qed.

(* the cascade is never quieter than its first stage *)
Theorem nf_dual_ge_preamp : forall (pre boost : @stage NumR) (eff pin nch sw n1 : R),
  fst (nf_stageR pre (st_gain_flatmax pre) pin nch sw) = Some n1 ->
  exists nf, calc_nf_avgR (@Dual NumR pre boost) eff pin nch sw = Some nf /\ n1 <= nf.
Proof.
  intros pre boost eff pin nch sw n1 H1. rewrite nf_dual_friis. cbv zeta. rewrite H1. cbn [odb2lin].
  eexists. split; [reflexivity|].
  rewrite <- (lin2db_db2lin n1) at 1. apply lin2db_le; [apply db2lin_pos|].
  assert (H := odb2lin_nonneg (fst (nf_stageR boost (eff - st_gain_flatmax pre) pin nch sw))).
  assert (G := db2lin_pos (st_gain_flatmax pre)).
  assert (0 <= odb2linR (fst (nf_stageR boost (eff - st_gain_flatmax pre) pin nch sw)) / db2linR (st_gain_flatmax pre)).
  { unfold Rdiv. apply Rmult_le_pos; [exact H | left; apply Rinv_0_lt_compat; exact G]. }
  lra.
Qed.

(* with a variable-gain (nf_min/nf_max) booster, the cascade NF never increases with the gain as long as the booster is
   not padded *)
Theorem nf_dual_antitone : forall (pre : @stage NumR) (nf1 nf2 dp bmin bmax eff eff' pin nch sw n1 : R),
  fst (nf_stageR pre (st_gain_flatmax pre) pin nch sw) = Some n1 ->
  bmin <= eff - st_gain_flatmax pre -> eff <= eff' ->
  exists a b,
    calc_nf_avgR (@Dual NumR pre (@mkStage NumR (@NFVariable NumR nf1 nf2 dp) bmin bmax)) eff pin nch sw = Some a /\
    calc_nf_avgR (@Dual NumR pre (@mkStage NumR (@NFVariable NumR nf1 nf2 dp) bmin bmax)) eff' pin nch sw = Some b /\
    b <= a.
Proof.
  intros pre nf1 nf2 dp bmin bmax eff eff' pin nch sw n1 H1 Hb He.
  rewrite !nf_dual_friis. cbv zeta. rewrite H1, !nf_stage_variable. cbn [odb2lin].
  do 2 eexists. split; [reflexivity|]. split; [reflexivity|].
  set (g1 := st_gain_flatmax pre) in *.
  assert (Hn := nf_antitone nf1 nf2 dp bmin bmax (eff - g1) (eff' - g1) Hb ltac:(lra)).
  assert (P1 := db2lin_pos n1). assert (G := db2lin_pos g1).
  assert (Pa := db2lin_pos (nf_variableR nf1 nf2 dp bmin bmax (eff - g1))).
  assert (Pb := db2lin_pos (nf_variableR nf1 nf2 dp bmin bmax (eff' - g1))).
  assert (Hd := db2lin_le _ _ Hn).
  apply lin2db_le.
  - apply Rplus_lt_0_compat; [exact P1 | apply Rdiv_lt_0_compat; assumption].
  - apply Rplus_le_compat_l. unfold Rdiv. apply Rmult_le_compat_r; [left; apply Rinv_0_lt_compat; exact G | exact Hd].
Qed.
