(* Basic lemmas for the spectrum model: Python list semantics on contiguous index lists,
   slice-assignment, bitmap_sum, the cell view of a bitmap. *)
From Coq Require Import Lia ZifyBool Permutation.
From Verif Require Import Prelude Model.Spectrum.
Open Scope Z_scope.

(* ---------- small list facts missing from the 8.16 library ---------- *)
Lemma nth_error_firstn' {A} : forall n (l : list A) j, (j < n)%nat -> nth_error (firstn n l) j = nth_error l j.
Proof.
  induction n as [|n IH]; intros l j H; [lia|].
  destruct l as [|x t]; [destruct j; reflexivity|].
  destruct j as [|j]; [reflexivity|]. cbn [firstn nth_error]. apply IH. lia.
Qed.

Lemma nth_error_skipn' {A} : forall n (l : list A) j, nth_error (skipn n l) j = nth_error l (n + j).
Proof.
  induction n as [|n IH]; intros l j; [reflexivity|].
  destruct l as [|x t]; [destruct j; reflexivity|]. cbn [skipn Nat.add nth_error]. apply IH.
Qed.

Lemma nth_error_Some_lt {A} (l : list A) j x : nth_error l j = Some x -> (j < length l)%nat.
Proof. intros H. apply nth_error_Some. rewrite H. discriminate. Qed.

(* ---------- zrange / zindex / pyidx ---------- *)
Lemma zrange_length a b : length (zrange a b) = Z.to_nat (b - a).
Proof. unfold zrange. rewrite map_length, seq_length. reflexivity. Qed.

Lemma zrange_nth a b k : (k < Z.to_nat (b - a))%nat -> nth_error (zrange a b) k = Some (a + Z.of_nat k).
Proof.
  intros H. unfold zrange. rewrite nth_error_map.
  rewrite nth_error_nth' with (d := 0%nat) by (rewrite seq_length; exact H).
  rewrite seq_nth by exact H. reflexivity.
Qed.

Lemma zindex_from_zrange_aux : forall n a x k,
  a <= x < a + Z.of_nat n ->
  zindex_from (map (fun j => a + Z.of_nat j) (seq 0 n)) x k = Some (k + (x - a)).
Proof.
  (* generalise the start of seq *)
  assert (G : forall n s a x k, a + Z.of_nat s <= x < a + Z.of_nat s + Z.of_nat n ->
            zindex_from (map (fun j => a + Z.of_nat j) (seq s n)) x k = Some (k + (x - a - Z.of_nat s))).
  { induction n as [|n IH]; intros s a x k H; [lia|].
    cbn [seq map zindex_from]. destruct (a + Z.of_nat s =? x) eqn:E.
    - f_equal. lia.
    - rewrite IH by lia. f_equal. lia. }
  intros n a x k H. rewrite G by lia. f_equal. lia.
Qed.

Lemma zindex_zrange a b x : a <= x < b -> zindex (zrange a b) x = Some (x - a).
Proof.
  intros H. unfold zindex, zrange. rewrite zindex_from_zrange_aux by lia. f_equal.
Qed.

Lemma zindex_from_none : forall l x k, (forall y, In y l -> y <> x) -> zindex_from l x k = None.
Proof.
  induction l as [|y t IH]; intros x k H; [reflexivity|].
  cbn [zindex_from]. destruct (y =? x) eqn:E.
  - exfalso. apply (H y); [left; reflexivity|lia].
  - apply IH. intros z Hz. apply H. right. exact Hz.
Qed.

Lemma in_zrange a b x : In x (zrange a b) <-> a <= x < b.
Proof.
  unfold zrange. rewrite in_map_iff. split.
  - intros (k & <- & Hk). apply in_seq in Hk. lia.
  - intros H. exists (Z.to_nat (x - a)). split; [lia|]. apply in_seq. lia.
Qed.

Lemma zindex_zrange_none a b x : ~ (a <= x < b) -> zindex (zrange a b) x = None.
Proof.
  intros H. apply zindex_from_none. intros y Hy ->. apply in_zrange in Hy. contradiction.
Qed.

Lemma mem_z_zrange a b x : mem_z x (zrange a b) = (a <=? x) && (x <? b).
Proof.
  unfold mem_z. destruct ((a <=? x) && (x <? b)) eqn:E.
  - apply existsb_exists. exists x. split; [apply in_zrange; lia|lia].
  - destruct (existsb (Z.eqb x) (zrange a b)) eqn:F; [|reflexivity].
    apply existsb_exists in F. destruct F as (y & Hy & Hxy). apply in_zrange in Hy. lia.
Qed.

Lemma pyidx_zrange a b i : 0 <= i < b - a -> pyidx (zrange a b) i = Some (a + i).
Proof.
  intros H. unfold pyidx. rewrite zrange_length.
  replace (i <? 0) with false by lia.
  replace ((i <? 0) || (Z.of_nat (Z.to_nat (b - a)) <=? i)) with false by lia.
  rewrite zrange_nth by lia. f_equal. lia.
Qed.

(* ---------- pyslice ---------- *)
Lemma pyslice_in_range {A} (l : list A) lo hi :
  0 <= lo -> lo <= hi -> hi <= Z.of_nat (length l) ->
  pyslice l lo hi = firstn (Z.to_nat (hi - lo)) (skipn (Z.to_nat lo) l).
Proof.
  intros H0 H1 H2. unfold pyslice, clip.
  replace (lo <? 0) with false by lia. replace (hi <? 0) with false by lia.
  rewrite !Z.min_l by lia.
  destruct (hi <=? lo) eqn:E; [|reflexivity].
  replace (hi - lo) with 0 by lia. reflexivity.
Qed.

Lemma pyslice_length_le {A} (l : list A) lo hi :
  Z.of_nat (length (pyslice l lo hi)) =
  Z.max 0 (clip (Z.of_nat (length l)) hi - clip (Z.of_nat (length l)) lo).
Proof.
  unfold pyslice. set (len := Z.of_nat (length l)).
  assert (Hlen : 0 <= len) by (unfold len; lia).
  assert (Ha : 0 <= clip len lo <= len) by (unfold clip; destruct (lo <? 0) eqn:?; lia).
  assert (Hb : 0 <= clip len hi <= len) by (unfold clip; destruct (hi <? 0) eqn:?; lia).
  destruct (clip len hi <=? clip len lo) eqn:E; [cbn [length]; lia|].
  rewrite firstn_length, skipn_length. fold len. lia.
Qed.

(* a slice [lo, lo+k) with k > 0 has k elements only when it lies inside the list *)
Lemma pyslice_full_length {A} (l : list A) lo k :
  0 < k -> 0 <= lo + k -> Z.of_nat (length (pyslice l lo (lo + k))) = k ->
  0 <= lo /\ lo + k <= Z.of_nat (length l).
Proof.
  intros Hk Hhi H. rewrite pyslice_length_le in H. unfold clip in H.
  destruct (lo <? 0) eqn:E1; destruct (lo + k <? 0) eqn:E2; lia.
Qed.

Lemma nth_error_firstn_skipn {A} (l : list A) a n j :
  (j < n)%nat -> nth_error (firstn n (skipn a l)) j = nth_error l (a + j).
Proof.
  intros H. rewrite nth_error_firstn' by exact H. apply nth_error_skipn'.
Qed.

Lemma forallb_nth {A} (f : A -> bool) (l : list A) :
  forallb f l = true <-> forall j x, nth_error l j = Some x -> f x = true.
Proof.
  rewrite forallb_forall. split.
  - intros H j x Hj. apply H. eapply nth_error_In; eauto.
  - intros H x Hx. apply In_nth_error in Hx. destruct Hx as (j & Hj). eauto.
Qed.

Lemma slice_all_free_spec c lo k :
  0 < k -> 0 <= lo + k ->
  slice_all_free c lo (lo + k) k = true <->
  (0 <= lo /\ lo + k <= Z.of_nat (length c) /\
   forall j, lo <= j < lo + k -> nth_error c (Z.to_nat j) = Some SF).
Proof.
  intros Hk Hhi. unfold slice_all_free. rewrite Z.max_r by lia. rewrite andb_true_iff. split.
  - intros (Hl & Hf). apply Z.eqb_eq in Hl.
    destruct (pyslice_full_length c lo k Hk Hhi Hl) as (H0 & H1).
    split; [exact H0|]. split; [exact H1|]. intros j Hj.
    rewrite pyslice_in_range in Hf by lia.
    rewrite forallb_nth in Hf.
    replace (lo + k - lo) with k in Hf by lia.
    specialize (Hf (Z.to_nat (j - lo))).
    rewrite nth_error_firstn_skipn in Hf by lia.
    replace (Z.to_nat lo + Z.to_nat (j - lo))%nat with (Z.to_nat j) in Hf by lia.
    destruct (nth_error c (Z.to_nat j)) as [s|] eqn:E.
    + specialize (Hf s eq_refl). destruct s; try discriminate. reflexivity.
    + exfalso. apply nth_error_None in E. lia.
  - intros (H0 & H1 & Hf). rewrite pyslice_in_range by lia.
    replace (lo + k - lo) with k by lia. split.
    + apply Z.eqb_eq. rewrite firstn_length, skipn_length. lia.
    + rewrite forallb_nth. intros j x Hj.
      assert (Hjk : (j < Z.to_nat k)%nat).
      { apply nth_error_Some_lt in Hj. rewrite firstn_length in Hj. lia. }
      rewrite nth_error_firstn_skipn in Hj by exact Hjk.
      specialize (Hf (lo + Z.of_nat j)).
      replace (Z.to_nat (lo + Z.of_nat j)) with (Z.to_nat lo + j)%nat in Hf by lia.
      rewrite Hf in Hj by lia. injection Hj as <-. reflexivity.
Qed.

(* ---------- slice assignment ---------- *)
Lemma pyslice_assign_in_range {A} (l : list A) a b vals :
  0 <= a -> a <= b -> b <= Z.of_nat (length l) ->
  pyslice_assign l a b vals = firstn (Z.to_nat a) l ++ vals ++ skipn (Z.to_nat b) l.
Proof.
  intros H0 H1 H2. unfold pyslice_assign, clip.
  replace (a <? 0) with false by lia. replace (b <? 0) with false by lia.
  rewrite !Z.min_l by lia. rewrite Z.max_r by lia. reflexivity.
Qed.

Lemma assign_cells_length {A} (l : list A) a b v :
  0 <= a -> a <= b -> b <= Z.of_nat (length l) ->
  length (firstn (Z.to_nat a) l ++ repeat v (Z.to_nat (b - a)) ++ skipn (Z.to_nat b) l) = length l.
Proof.
  intros. rewrite !app_length, firstn_length, repeat_length, skipn_length. lia.
Qed.

Lemma assign_cells_nth {A} (l : list A) a b v j :
  0 <= a -> a <= b -> b <= Z.of_nat (length l) -> 0 <= j ->
  nth_error (firstn (Z.to_nat a) l ++ repeat v (Z.to_nat (b - a)) ++ skipn (Z.to_nat b) l) (Z.to_nat j) =
  if (a <=? j) && (j <? b) then Some v else nth_error l (Z.to_nat j).
Proof.
  intros H0 H1 H2 Hj.
  destruct (Z_lt_le_dec j a) as [Hja|Hja].
  - replace ((a <=? j) && (j <? b)) with false by lia.
    rewrite nth_error_app1 by (rewrite firstn_length; lia).
    apply nth_error_firstn'. lia.
  - rewrite nth_error_app2 by (rewrite firstn_length; lia).
    rewrite firstn_length. replace (Nat.min (Z.to_nat a) (length l)) with (Z.to_nat a) by lia.
    destruct (Z_lt_le_dec j b) as [Hjb|Hjb].
    + replace ((a <=? j) && (j <? b)) with true by lia.
      rewrite nth_error_app1 by (rewrite repeat_length; lia).
      rewrite nth_error_repeat by lia. reflexivity.
    + replace ((a <=? j) && (j <? b)) with false by lia.
      rewrite nth_error_app2 by (rewrite repeat_length; lia).
      rewrite repeat_length. rewrite nth_error_skipn'. f_equal. lia.
Qed.

(* ---------- bitmap_sum ---------- *)
Lemma bitmap_sum_length : forall l1 l2, length (bitmap_sum l1 l2) = Nat.min (length l1) (length l2).
Proof.
  induction l1 as [|a t IH]; intros [|b t2]; cbn [bitmap_sum length]; try reflexivity.
  rewrite IH. reflexivity.
Qed.

Lemma bitmap_sum_nth : forall l1 l2 j,
  nth_error (bitmap_sum l1 l2) j =
  match nth_error l1 j, nth_error l2 j with
  | Some a, Some b => Some (sum_slot a b)
  | _, _ => None
  end.
Proof.
  induction l1 as [|a t IH]; intros [|b t2] [|j]; cbn [bitmap_sum nth_error]; try reflexivity.
  - destruct (nth_error t j); reflexivity.
  - apply IH.
Qed.

Lemma sum_slot_free a b : sum_slot a b = SF <-> a = SF /\ b = SF.
Proof. destruct a, b; cbn; split; try (intros [? ?]); try discriminate; auto. Qed.

(* ---------- the cell view ---------- *)
Definition cellz (c : list slot) (nmin n : Z) : option slot :=
  if n <? nmin then None else nth_error c (Z.to_nat (n - nmin)).
Definition cell (b : bitmap) (n : Z) : option slot := cellz (cells b) (n_min b) n.

Definition WFb (b : bitmap) : Prop :=
  idx b = zrange (n_min b) (n_max b + 1) /\
  Z.of_nat (length (cells b)) = n_max b - n_min b + 1 /\
  fi_min b = n_min b + gb b /\ fi_max b = n_max b - gb b /\ 1 <= gb b.

Definition Free (b : bitmap) (lo hi : Z) : Prop := forall k, lo <= k <= hi -> cell b k = Some SF.
