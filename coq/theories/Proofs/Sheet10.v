(* C20 — lemmas about Model/Sheet.v, part 10: header recognition (read_header / read_slice / parse_headers).
   What a sheet must satisfy for its columns to be read as intended, and two witnesses of well-formed sheets that
   are mis-read because a label is matched as a SUBSTRING of any text cell on the ten lines searched. *)
From Coq Require Import QArith Lia.
From Verif Require Import Prelude Model.Sheet Proofs.Sheet.
Open Scope Z_scope.

(* ------------------------------------------------------------------ the search over ten lines *)
Lemma find_label_spec : forall g a b label n line r, find_label g line a b label n = Some r ->
  exists k, (k < n)%nat /\ read_slice g (line + k) a b label = Some r /\
            forall j, (j < k)%nat -> read_slice g (line + j) a b label = None.
Proof.
  intros g a b label. induction n as [|n IH]; intros line r H; cbn [find_label] in H; [discriminate|].
  destruct (read_slice g line a b label) as [r0|] eqn:E.
  - inversion H; subst. exists 0%nat. rewrite Nat.add_0_r. split; [lia|]. split; [exact E|]. intros j Hj. lia.
  - destruct (IH (S line) r H) as [k [Hk [H1 H2]]]. exists (S k). split; [lia|].
    replace (line + S k)%nat with (S line + k)%nat by lia. split; [exact H1|].
    intros j Hj. destruct j as [|j]; [rewrite Nat.add_0_r; exact E|].
    replace (line + S j)%nat with (S line + j)%nat by lia. apply H2. lia.
Qed.
Lemma find_label_none : forall g a b label n line,
  (forall k, (k < n)%nat -> read_slice g (line + k) a b label = None) -> find_label g line a b label n = None.
Proof.
  intros g a b label. induction n as [|n IH]; intros line H; cbn [find_label]; [reflexivity|].
  rewrite <- (Nat.add_0_r line) at 1. rewrite (H 0%nat) by lia. apply IH. intros k Hk.
  replace (S line + k)%nat with (line + S k)%nat by lia. apply H. lia.
Qed.
Lemma find_label_here : forall g a b label n line r,
  read_slice g line a b label = Some r -> find_label g line a b label (S n) = Some r.
Proof. intros. cbn [find_label]. rewrite H. reflexivity. Qed.

(* ------------------------------------------------------------------ the first header containing the label *)
Lemma first_match_spec : forall label hi c c', first_match label hi = Some (c, c') ->
  exists pre h post, hi = pre ++ (h, c) :: post /\ contains label h = true /\
    (forall p, In p pre -> contains label (fst p) = false) /\ (exists h', nth_error post 0 = Some (h', c')).
Proof.
  intros label. induction hi as [|[h0 c0] t IH]; intros c c' H; cbn [first_match] in H; [discriminate|].
  destruct (contains label h0) eqn:E.
  - destruct t as [|[h1 c1] t']; [discriminate|]. inversion H; subst.
    exists [], h0, ((h1, c') :: t'). split; [reflexivity|]. split; [exact E|]. split; [intros p []|].
    exists h1. reflexivity.
  - destruct (IH c c' H) as [pre [h [post [H1 [H2 [H3 H4]]]]]].
    exists ((h0, c0) :: pre), h, post. split; [rewrite H1; reflexivity|]. split; [exact H2|]. split; [|exact H4].
    intros p [<-|Hp]; [exact E | apply H3; exact Hp].
Qed.
Lemma first_match_none : forall label hi, (forall p, In p hi -> contains label (fst p) = false) -> first_match label hi = None.
Proof.
  intros label. induction hi as [|[h0 c0] t IH]; intros H; cbn [first_match]; [reflexivity|].
  pose proof (H (h0, c0) (or_introl eq_refl)) as E. cbn [fst] in E. rewrite E.
  apply IH. intros p Hp. apply H. right. exact Hp.
Qed.
Lemma first_match_found : forall label pre h c h' c' post,
  (forall p, In p pre -> contains label (fst p) = false) -> contains label h = true ->
  first_match label (pre ++ (h, c) :: (h', c') :: post) = Some (c, c').
Proof.
  intros label. induction pre as [|[h0 c0] t IH]; intros h c h' c' post Hp Hc; cbn [app first_match].
  - rewrite Hc. reflexivity.
  - pose proof (Hp (h0, c0) (or_introl eq_refl)) as E. cbn [fst] in E. rewrite E.
    apply IH; [|exact Hc]. intros p Hin. apply Hp. right. exact Hin.
Qed.

(* ------------------------------------------------------------------ the header list of a line *)
(* the texts of a line without non-zero numbers; `headers_of a hs` = the non-empty ones with their columns *)
Definition headers_of (a : nat) (hs : list string) : list (string * nat) :=
  filter (fun p => negb (seqb (fst p) "")) (number_from a hs).

Lemma headers_of_cols : forall hs a p, In p (headers_of a hs) -> (a <= snd p < a + length hs)%nat.
Proof.
  unfold headers_of. induction hs as [|h t IH]; intros a p H; cbn [number_from filter] in H; [destruct H|].
  cbn [length]. cbn [fst] in H. revert H. destruct (negb (seqb h "")); intros H.
  - destruct H as [<-|H]; [cbn [snd]; lia|]. specialize (IH (S a) p H). lia.
  - specialize (IH (S a) p H). lia.
Qed.
Lemma last_col_In : forall l c, last_col l = Some c -> exists h, In (h, c) l.
Proof.
  induction l as [|[h0 c0] t IH]; intros c H; cbn [last_col] in H; [discriminate|].
  destruct t as [|p t'].
  - inversion H; subst. exists h0. left. reflexivity.
  - destruct (IH c H) as [h Hh]. exists h. right. exact Hh.
Qed.
Lemma last_col_some : forall l, l <> [] -> exists c, last_col l = Some c.
Proof.
  induction l as [|[h0 c0] t IH]; intros H; [congruence|]. destruct t as [|p t'].
  - exists c0. reflexivity.
  - destruct IH as [c Hc]; [discriminate|]. exists c. exact Hc.
Qed.

(* when the line holds texts only and is not wider than the slice, read_header is the header list + the sentinel *)
Lemma read_header_texts : forall g line a b hs,
  all_some (map header_text (row_slice g line a b)) = Some hs -> (length hs <= b - a)%nat -> (a <= b)%nat ->
  headers_of a hs <> [] -> read_header g line a b = headers_of a hs ++ [(EmptyString, b)].
Proof.
  intros g line a b hs H L Hab Hne. unfold read_header. rewrite H. fold (headers_of a hs).
  destruct (last_col_some _ Hne) as [c Hc]. rewrite Hc.
  destruct (last_col_In _ _ Hc) as [h Hh]. pose proof (headers_of_cols hs a _ Hh) as Hr. cbn [snd] in Hr.
  destruct (Nat.eqb c b) eqn:E; [apply Nat.eqb_eq in E; lia | reflexivity].
Qed.
Lemma all_some_length : forall {A} (l : list (option A)) r, all_some l = Some r -> length r = length l.
Proof.
  intros A. induction l as [|[x|] t IH]; intros r H; cbn [all_some] in H; try discriminate.
  - inversion H. reflexivity.
  - destruct (all_some t) as [r'|]; cbn [option_map] in H; [|discriminate]. inversion H. cbn [length]. rewrite (IH r' eq_refl). reflexivity.
Qed.
Lemma row_slice_length : forall g line a b, (length (row_slice g line a b) <= b - a)%nat.
Proof. intros. unfold row_slice. rewrite firstn_length. lia. Qed.

(* splitting the header list at a column *)
Lemma headers_of_split : forall hs a j h, nth_error hs j = Some h -> h <> EmptyString ->
  exists pre post, headers_of a hs = pre ++ (h, (a + j)%nat) :: post /\
    forall p, In p pre -> exists i, (i < j)%nat /\ nth_error hs i = Some (fst p) /\ fst p <> EmptyString.
Proof.
  unfold headers_of. induction hs as [|h0 t IH]; intros a j h Hn Hne; [destruct j; discriminate|].
  destruct j as [|j]; cbn [nth_error] in Hn.
  - inversion Hn; subst h0. cbn [number_from filter fst].
    assert (E : seqb h "" = false) by (apply seqb_neq; exact Hne). rewrite E. cbn [negb].
    exists [], (filter (fun p => negb (seqb (fst p) "")) (number_from (S a) t)). rewrite Nat.add_0_r.
    split; [reflexivity | intros p []].
  - destruct (IH (S a) j h Hn Hne) as [pre [post [E H]]]. cbn [number_from filter fst].
    replace (a + S j)%nat with (S a + j)%nat by lia.
    destruct (seqb h0 "") eqn:E0; cbn [negb].
    + exists pre, post. split; [exact E|]. intros p Hp. destruct (H p Hp) as [i [Hi [H1 H2]]].
      exists (S i). split; [lia|]. split; [exact H1 | exact H2].
    + exists ((h0, a) :: pre), post. split; [rewrite E; reflexivity|].
      intros p [<-|Hp].
      * exists 0%nat. split; [lia|]. split; [reflexivity | apply seqb_neq; exact E0].
      * destruct (H p Hp) as [i [Hi [H1 H2]]]. exists (S i). split; [lia|]. split; [exact H1 | exact H2].
Qed.

(* A label is read at column a + j of a line when: the line (inside the slice) holds no non-zero number, its j-th
   text contains the label, and no text before it does. *)
Theorem read_slice_at : forall g line a b label hs j h,
  all_some (map header_text (row_slice g line a b)) = Some hs -> (a <= b)%nat ->
  nth_error hs j = Some h -> contains label h = true -> label <> EmptyString ->
  (forall i h', (i < j)%nat -> nth_error hs i = Some h' -> h' = EmptyString \/ contains label h' = false) ->
  exists c', read_slice g line a b label = Some ((a + j)%nat, c').
Proof.
  intros g line a b label hs j h H Hab Hn Hc Hl Hbefore.
  assert (Hne : h <> EmptyString).
  { intros ->. destruct label; [congruence|]. cbn in Hc. discriminate. }
  assert (L : (length hs <= b - a)%nat).
  { rewrite (all_some_length _ _ H), map_length. apply row_slice_length. }
  destruct (headers_of_split hs a j h Hn Hne) as [pre [post [E Hpre]]].
  assert (Hnn : headers_of a hs <> []) by (rewrite E; destruct pre; discriminate).
  unfold read_slice. rewrite (read_header_texts g line a b hs H L Hab Hnn), E, <- app_assoc. cbn [app].
  assert (Hp : forall p, In p pre -> contains label (fst p) = false).
  { intros p Hp. destruct (Hpre p Hp) as [i [Hi [H1 H2]]]. destruct (Hbefore i (fst p) Hi H1) as [E0|E0]; [contradiction | exact E0]. }
  destruct post as [|[h' c'] post']; cbn [app].
  - exists b. apply first_match_found; assumption.
  - exists c'. apply first_match_found; assumption.
Qed.

(* A label is found nowhere when no header of the ten lines contains it (a line with a non-zero number has no
   header at all). *)
Theorem label_absent : forall g line a b label,
  (forall k h c, (k < 10)%nat -> In (h, c) (read_header g (line + k) a b) -> contains label h = false) ->
  find_label g line a b label 10 = None.
Proof.
  intros g line a b label H. apply find_label_none. intros k Hk. unfold read_slice. apply first_match_none.
  intros [h c] Hp. exact (H k h c Hk Hp).
Qed.

(* ------------------------------------------------------------------ a flat dictionary read on its header line *)
(* the mapping obtained when every label of the dictionary is found on the header line itself *)
Definition intended (d : flat_dict) (col : string -> nat) (hd : list (nat * string)) : list (nat * string) :=
  fold_left (fun acc lf => hd_set (col (fst lf)) (snd lf) acc) d hd.

Lemma hd_set_nonempty : forall c f l, hd_set c f l <> [].
Proof. intros c f [|[c' f'] t]; cbn [hd_set]; [discriminate|]. destruct (Nat.eqb c' c); discriminate. Qed.
Lemma intended_nonempty : forall d col hd, hd <> [] -> intended d col hd <> [].
Proof.
  induction d as [|[l f] t IH]; intros col hd H; cbn [intended fold_left]; [exact H|].
  apply IH. apply hd_set_nonempty.
Qed.

Theorem parse_flat_intended : forall g line a b (col : string -> nat) d hd,
  (forall label field, In (label, field) d -> exists c', read_slice g line a b label = Some (col label, c')) ->
  d <> [] \/ hd <> [] ->
  parse_flat g d hd line a b = Ok (intended d col hd).
Proof.
  intros g line a b col. induction d as [|[label field] t IH]; intros hd H Hne; cbn [parse_flat intended fold_left].
  - destruct Hne as [Hne|Hne]; [congruence|]. destruct hd; [congruence | reflexivity].
  - destruct (H label field (or_introl eq_refl)) as [c' Hc].
    rewrite (find_label_here g a b label 9 line _ Hc). cbn [fst snd].
    apply IH; [intros l f Hin; apply (H l f); right; exact Hin | right; apply hd_set_nonempty].
Qed.

(* an optional label that is absent is skipped *)
Lemma parse_flat_skip : forall g line a b label field t hd,
  find_label g line a b label 10 = None -> mandatory label = false ->
  parse_flat g ((label, field) :: t) hd line a b = parse_flat g t hd line a b.
Proof. intros. cbn [parse_flat]. rewrite H, H0. reflexivity. Qed.

(* with distinct columns the intended mapping is just the list (column, field) in dictionary order *)
Lemma hd_set_fresh : forall c f l, ~ In c (map fst l) -> hd_set c f l = l ++ [(c, f)].
Proof.
  intros c f. induction l as [|[c' f'] t IH]; intros H; cbn [hd_set app]; [reflexivity|].
  destruct (Nat.eqb c' c) eqn:E; [apply Nat.eqb_eq in E; exfalso; apply H; left; exact E|].
  rewrite IH; [reflexivity|]. intros Hin. apply H. right. exact Hin.
Qed.
Lemma intended_distinct : forall d col hd, NoDup (map fst hd ++ map (fun lf => col (fst lf)) d) ->
  intended d col hd = hd ++ map (fun lf => (col (fst lf), snd lf)) d.
Proof.
  induction d as [|[l f] t IH]; intros col hd N.
  - cbn. rewrite app_nil_r. reflexivity.
  - change (intended ((l, f) :: t) col hd) with (intended t col (hd_set (col l) f hd)).
    cbn [map fst snd] in N |- *.
    assert (F : ~ In (col l) (map fst hd)).
    { intros Hin. apply NoDup_remove_2 in N. apply N. apply in_or_app. left. exact Hin. }
    rewrite (hd_set_fresh _ _ _ F). rewrite IH.
    + rewrite <- app_assoc. reflexivity.
    + rewrite map_app. cbn [map fst]. rewrite <- app_assoc. exact N.
Qed.

(* ------------------------------------------------------------------ well-formed sheets that are mis-read *)
(* H-1: a Nodes sheet with the City column only ('Type' is optional) and a site called Type-C: 'Type' is found in the
   data row of that site, column 0 is re-read as node_type and no column is read as the city any more (gnpy then
   reports "Duplicate city") *)
Definition blank5 : list cell := [CEmpty].
Definition g_nodes_h1 : grid :=
  [blank5; blank5; blank5; blank5; [CStr "City"]; [CStr "A"]; [CStr "B"]; [CStr "Type-C"]].
Lemma header_hazard_nodes :
  parse_headers g_nodes_h1 node_headers [] 4 0 10 = Ok [(0%nat, "node_type"%string)].
Proof. vm_compute. reflexivity. Qed.
Lemma header_intended_nodes :   (* the same sheet with the site called C *)
  parse_headers [blank5; blank5; blank5; blank5; [CStr "City"]; [CStr "A"]; [CStr "B"]; [CStr "C"]] node_headers [] 4 0 10
  = Ok [(0%nat, "city"%string)].
Proof. vm_compute. reflexivity. Qed.

(* H-2: a one-sided Links sheet (no 'west' group, which is optional) with a site called Southwest in a row without
   numbers: 'west' is found in that row, its "group" spans columns 1-3, and the 'Distance (km)' column (2) is re-read
   as west_distance: every east length falls back to the default 80 km *)
Definition links_sub : list cell :=
  [CStr "Node A"; CStr "Node Z"; CStr "Distance (km)"; CStr "Fiber type"; CStr "lineic att"; CStr "Con_in"; CStr "Con_out";
   CStr "PMD"; CStr "Cable id"].
Definition g_links_h2 (site : string) : grid :=
  [blank5; blank5; blank5; [CEmpty; CEmpty; CStr "east"]; links_sub;
   [CStr "A"; CStr "B"; CNum 10]; [CStr "B"; CStr site; CEmpty; CStr "SSMF"]; [CStr site; CStr "A"; CNum 30]].
Lemma header_hazard_links : exists hd,
  parse_headers (g_links_h2 "Southwest") link_headers [] 3 0 16 = Ok hd /\
  parse_row [CStr "A"; CStr "B"; CNum 10] hd "east_distance" = CEmpty /\
  parse_row [CStr "A"; CStr "B"; CNum 10] hd "west_distance" = CNum 10.
Proof. eexists. split; [vm_compute; reflexivity|]. split; vm_compute; reflexivity. Qed.
Lemma header_intended_links : exists hd,
  parse_headers (g_links_h2 "C") link_headers [] 3 0 16 = Ok hd /\
  parse_row [CStr "A"; CStr "B"; CNum 10] hd "east_distance" = CNum 10 /\
  parse_row [CStr "A"; CStr "B"; CNum 10] hd "west_distance" = CEmpty.
Proof. eexists. split; [vm_compute; reflexivity|]. split; vm_compute; reflexivity. Qed.
