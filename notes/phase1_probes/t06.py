import logging, numpy as np, copy
from pathlib import Path
import gnpy
from gnpy.tools.json_io import load_equipment, network_from_json
from gnpy.tools.worker_utils import designed_network
from gnpy.core.elements import Roadm, Fiber, Edfa, Transceiver
from gnpy.core.info import create_arbitrary_spectral_information
from gnpy.core.utils import lin2db, watt2dbm, dbm2watt
logging.disable(logging.CRITICAL)
d = Path(gnpy.__file__).parent/'example-data'
eq = load_equipment(d/'eqpt_config.json')
def topo(roadm_params):
    els = [{'uid':'trx A','type':'Transceiver'},{'uid':'trx B','type':'Transceiver'},{'uid':'trx C','type':'Transceiver'},
           {'uid':'roadm A','type':'Roadm','params':roadm_params},{'uid':'roadm B','type':'Roadm'},{'uid':'roadm C','type':'Roadm'}]
    cx=[]
    for a,b in [('A','B'),('B','A'),('A','C'),('C','A')]:
        els.append({'uid':f'fiber {a}{b}','type':'Fiber','type_variety':'SSMF','params':{'length':60,'length_units':'km','loss_coef':0.2,'con_in':None,'con_out':None}})
        cx += [(f'roadm {a}', f'fiber {a}{b}'), (f'fiber {a}{b}', f'roadm {b}')]
    for x in 'ABC': cx += [(f'trx {x}',f'roadm {x}'),(f'roadm {x}',f'trx {x}')]
    return {'elements':els,'connections':[{'from_node':a,'to_node':b} for a,b in cx]}
rp = {'target_pch_out_db': -20, 'per_degree_psd_out_mWperGHz': {'Edfa_booster_roadm A_to_fiber AC': 2.5e-4}}
net = network_from_json(topo(rp), eq)
net,_,_ = designed_network(eq, net)
r = next(n for n in net.nodes() if n.uid=='roadm A')
print(r.per_degree_pch_out_dbm, r.per_degree_pch_psd, r.per_degree_pch_psw, r.target_pch_out_dbm)
print([n.uid for n in net.successors(r)], r.ref_pch_in_dbm)
rng = np.random.default_rng(0)
f = np.array([193.1e12,193.2e12,193.3e12,193.4e12]); br = np.array([32e9,64e9,32e9,40e9]); sw=np.array([50e9,75e9,50e9,50e9])
for deg in ['Edfa_booster_roadm A_to_fiber AB','Edfa_booster_roadm A_to_fiber AC']:
    p = dbm2watt(np.array([-10., -25., -19.5, -21.]))
    si = create_arbitrary_spectral_information(f, slot_width=sw, pch=p, baud_rate=br, tx_osnr=40, tx_power=p, delta_pdb_per_channel=[0,1,-2,0.5])
    pin = si.pch_dbm.copy()
    rr = copy.deepcopy(r)
    so = rr(si, degree=deg, from_degree='trx A')
    print(deg, 'in', pin, 'out', np.round(so.pch_dbm,4))
    tgt = -20 if 'AB' in deg else lin2db(br*2.5e-4*1e-9)
    print('   expected', np.round(np.minimum(tgt+np.array([0,1,-2,0.5]), pin),4))
