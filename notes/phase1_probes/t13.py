import logging, copy, numpy as np
from pathlib import Path
import gnpy
from gnpy.tools.json_io import load_equipment, load_network, load_json, requests_from_json, _equipment_from_json
from gnpy.tools.default_edfa_config import DEFAULT_EXTRA_CONFIG
from gnpy.tools.worker_utils import designed_network
from gnpy.topology.request import propagate_and_optimize_mode, compute_constrained_path, propagate
from gnpy.topology.spectrum_assignment import build_oms_list
from gnpy.core.elements import Edfa
logging.disable(logging.CRITICAL)
d = Path(gnpy.__file__).parent/'example-data'
ej = load_json(d/'eqpt_config.json')
voy = [t for t in ej['Transceiver'] if t['type_variety']=='Voyager'][0]
for m in voy['mode']: print(m['format'], m['baud_rate'], m['OSNR'], m['bit_rate'], m['min_spacing'], m.get('equalization_offset_db'))
# add offsets: highest baud rate mode gets +8 dB offset and impossible OSNR so loop continues
for m in voy['mode']:
    if m['baud_rate'] > 60e9:
        m['equalization_offset_db'] = 8.0; m['OSNR'] = 60
eq = _equipment_from_json(copy.deepcopy(ej), DEFAULT_EXTRA_CONFIG)
net = load_network(d/'meshTopologyExampleV2.json', eq)
net,_,_ = designed_network(eq, net)
oms = build_oms_list(net, eq)
sj = load_json(d/'meshTopologyExampleV2_services.json')
r = [x for x in sj['path-request']][0]
r['path-constraints']['te-bandwidth']['trx_mode']=None
r['path-constraints']['te-bandwidth']['spacing']=75e9
r['source']='trx Lorient_KMA'; r['destination']='trx Vannes_KBE'
r.pop('explicit-route-objects', None)
reqs = requests_from_json({'path-request':[r]}, eq)
req = reqs[0]
req.nodes_list.append(req.destination); req.loose_list.append('STRICT')
path = compute_constrained_path(net, req)
print([e.uid for e in path])
p1 = copy.deepcopy(path)
rq1 = copy.deepcopy(req)
pth, mode = propagate_and_optimize_mode(p1, rq1, eq)
print('selected', mode['format'] if mode else None, getattr(rq1,'blocking_reason',None), np.round(min(p1[-1].snr_01nm),4))
print('gains after loop', [round(e.effective_gain,3) for e in p1 if isinstance(e,Edfa)])
print('gains design   ', [round(e.effective_gain,3) for e in path if isinstance(e,Edfa)])
# fresh: same mode alone
eq2 = copy.deepcopy(eq)
eq2['Transceiver']['Voyager'].mode = [m for m in eq2['Transceiver']['Voyager'].mode if m['baud_rate'] < 60e9]
p2 = copy.deepcopy(path); rq2 = copy.deepcopy(req)
pth2, mode2 = propagate_and_optimize_mode(p2, rq2, eq2)
print('alone   ', mode2['format'] if mode2 else None, getattr(rq2,'blocking_reason',None), np.round(min(p2[-1].snr_01nm),4))
