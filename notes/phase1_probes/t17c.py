import json, copy, logging, sys
from pathlib import Path
import gnpy
from gnpy.tools.json_io import network_from_json, network_to_json, load_json, load_equipments_and_configs
from gnpy.tools.worker_utils import designed_network
from gnpy.core.parameters import SimParams
logging.disable(logging.CRITICAL)
d = Path(gnpy.__file__).parent/'example-data'
eq = load_equipments_and_configs(d/'eqpt_config_multiband.json', [], [])
sp = load_json(d/'sim_params.json')
SimParams.set_params(sp)
tj = load_json(d/'multiband_example_network.json')
print([e for e in tj['elements'] if e['uid']=='east edfa in Site_B to Site_C'])
net = network_from_json(copy.deepcopy(tj), eq)
net,_,_ = designed_network(eq, net)
j1 = network_to_json(net)
print([e for e in j1['elements'] if e['uid']=='east edfa in Site_B to Site_C'])
net2 = network_from_json(copy.deepcopy(j1), eq)
net2,_,_ = designed_network(eq, net2)
j2 = network_to_json(net2)
print([e for e in j2['elements'] if e['uid']=='east edfa in Site_B to Site_C'])
net3 = network_from_json(copy.deepcopy(j2), eq)
net3,_,_ = designed_network(eq, net3)
j3 = network_to_json(net3)
print([e for e in j3['elements'] if e['uid']=='east edfa in Site_B to Site_C'])
