import logging, numpy as np
from gnpy.core.elements import Fiber
from gnpy.core.info import create_arbitrary_spectral_information
from gnpy.core.utils import lin2db, watt2dbm
from gnpy.core.parameters import SimParams
logging.disable(logging.CRITICAL)
def fib(lumped, length=80):
    return Fiber(uid='f', type_variety='SSMF', params={'length':length,'length_units':'km','loss_coef':0.2,'con_in':0.5,'con_out':0.7,'att_in':1.0,
        'dispersion':1.67e-05,'effective_area':83e-12,'pmd_coef':1.265e-15,'lumped_losses':lumped})
for lumped in ([], [{'position':10,'loss':1.5}], [{'position':10,'loss':1.5},{'position':10,'loss':2.0}], [{'position':20,'loss':1.0},{'position':10,'loss':1.5}]):
    f = fib(lumped); f.ref_pch_in_dbm = 0
    si = create_arbitrary_spectral_information(np.array([193.1e12,193.2e12]), slot_width=50e9, pch=1e-3, baud_rate=32e9, tx_osnr=40, tx_power=1e-3)
    pin = si.pch_dbm.copy()
    so = f(si)
    print(lumped, 'loss prop', pin - so.pch_dbm, 'Fiber.loss', float(f.loss), 'budget', 1.0+0.5+0.7+16+sum(l['loss'] for l in lumped))
# raman on low power, lumped at grid point
SimParams.set_params({'raman_params':{'flag':True,'result_spatial_resolution':10e3,'solver_spatial_resolution':50}})
for method in ('perturbative','numerical'):
  for lumped in ([{'position':10,'loss':1.5}], [{'position':10.025,'loss':1.5}]):
    SimParams.set_params({'raman_params':{'flag':True,'method':method,'result_spatial_resolution':10e3,'solver_spatial_resolution':50}})
    f = fib(lumped); f.ref_pch_in_dbm = 0
    si = create_arbitrary_spectral_information(np.array([193.1e12,193.2e12]), slot_width=50e9, pch=1e-9, baud_rate=32e9, tx_osnr=40, tx_power=1e-9)
    pin = si.pch_dbm.copy()
    so = f(si)
    print(method, lumped, 'loss prop', pin - so.pch_dbm, 'budget', 1.0+0.5+0.7+16+sum(l['loss'] for l in lumped))
