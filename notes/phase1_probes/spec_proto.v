From Coq Require Import ZArith List Lia Bool.
Import ListNotations.
Open Scope Z_scope.

Inductive slot := SU | SO | SF.
Definition is_free (s : slot) : bool := match s with SF => true | _ => false end.

(* python slice a[lo:hi] for a list, with python's negative / clipping rules *)
Definition clip (len i : Z) : Z := if i <? 0 then Z.max 0 (len + i) else Z.min i len.
Definition pyslice {A} (l : list A) (lo hi : Z) : list A :=
  let len := Z.of_nat (length l) in
  let a := clip len lo in let b := clip len hi in
  if b <=? a then [] else firstn (Z.to_nat (b - a)) (skipn (Z.to_nat a) l).

Record bitmap := { n_min : Z; cells : list slot; fi_min : Z; fi_max : Z }.
Definition blen (b : bitmap) := Z.of_nat (length (cells b)).
Definition idx (b : bitmap) (i : Z) : Z := n_min b + i.   (* contiguous index *)

Definition all_free_len (l : list slot) (k : Z) : bool :=
  (Z.of_nat (length l) =? k) && forallb is_free l.

(* candidate test at local position i for 2m cells, as in spectrum_selection (requested_n None) *)
Definition cand_ok (b : bitmap) (m i : Z) : bool :=
  all_free_len (pyslice (cells b) i (i + 2 * m)) (2 * m)
  && (fi_min b <=? idx b i) && (idx b (i + 2 * m - 1) <=? fi_max b).

Fixpoint first_fit_from (b : bitmap) (m : Z) (i : Z) (fuel : nat) : option Z :=
  match fuel with
  | O => None
  | S f => if cand_ok b m i then Some i else first_fit_from b m (i + 1) f
  end.
Definition first_fit (b : bitmap) (m : Z) : option Z :=
  match first_fit_from b m 0 (length (cells b)) with
  | Some i => Some (idx b i + m)      (* centre N *)
  | None => None
  end.

Lemma first_fit_from_min b m : forall fuel i j,
  first_fit_from b m i fuel = Some j ->
  i <= j < i + Z.of_nat fuel /\ cand_ok b m j = true /\ forall k, i <= k < j -> cand_ok b m k = false.
Proof.
  induction fuel as [|f IH]; intros i j H; cbn [first_fit_from] in H; [discriminate|].
  destruct (cand_ok b m i) eqn:E.
  - injection H as <-. split; [lia|]. split; [exact E|]. intros k Hk; lia.
  - apply IH in H. destruct H as (Hr & Hok & Hmin). split; [lia|]. split; [exact Hok|].
    intros k Hk. destruct (Z.eq_dec k i) as [->|Hne]; [exact E|apply Hmin; lia].
Qed.

Lemma first_fit_from_none b m : forall fuel i,
  first_fit_from b m i fuel = None -> forall k, i <= k < i + Z.of_nat fuel -> cand_ok b m k = false.
Proof.
  induction fuel as [|f IH]; intros i H k Hk; [lia|].
  cbn [first_fit_from] in H. destruct (cand_ok b m i) eqn:E; [discriminate|].
  destruct (Z.eq_dec k i) as [->|Hne]; [exact E|]. apply (IH (i+1)); [exact H|lia].
Qed.

(* first-fit theorem: the returned centre is the smallest feasible centre on the map *)
Theorem first_fit_minimal b m n :
  first_fit b m = Some n ->
  exists i, n = idx b i + m /\ cand_ok b m i = true /\
            forall k, 0 <= k < blen b -> cand_ok b m k = true -> idx b i + m <= idx b k + m.
Proof.
  unfold first_fit. destruct (first_fit_from b m 0 (length (cells b))) as [i|] eqn:E; [|discriminate].
  intros H; injection H as <-. apply first_fit_from_min in E. destruct E as (Hr & Hok & Hmin).
  exists i. split; [reflexivity|]. split; [exact Hok|]. intros k Hk Hck.
  unfold idx. destruct (Z_lt_le_dec k i) as [Hlt|Hge]; [|lia].
  rewrite (Hmin k) in Hck by lia. discriminate.
Qed.
Print Assumptions first_fit_minimal.

Definition ex : bitmap := {| n_min := -8; cells := [SF;SF;SF;SF;SO;SO;SF;SF;SF;SF;SF;SF;SF;SF;SF;SF;SF]; fi_min := -8; fi_max := 8 |}.
Eval vm_compute in (first_fit ex 2, first_fit ex 3, first_fit ex 9, pyslice [1;2;3;4;5] (-2) 3, pyslice [1;2;3;4;5] 3 100).
