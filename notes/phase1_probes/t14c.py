import logging, copy
from pathlib import Path
import gnpy
from gnpy.tools.json_io import load_equipment, load_json, network_from_json
from gnpy.tools.worker_utils import designed_network, planning
logging.disable(logging.CRITICAL)
d = Path(gnpy.__file__).parent/'example-data'
eq = load_equipment(d/'eqpt_config.json')
tj = load_json(d/'meshTopologyExampleV2.json')
net = network_from_json(copy.deepcopy(tj), eq); net,_,_ = designed_network(eq, net)
sj = load_json(d/'meshTopologyExampleV2_services.json')
base = copy.deepcopy(sj['path-request'][0]); base.pop('explicit-route-objects',None)
base['path-constraints']['te-bandwidth']['path_bandwidth']=100e9
def rq(i, slots):
    r = copy.deepcopy(base); r['request-id']=str(i); r['path-constraints']['te-bandwidth']['effective-freq-slot']=slots; return r
s = {'path-request':[rq(0,[{'N':20,'M':4}]), rq(1,[{'N':0,'M':4},{'N':20,'M':4}])]}
oms, pp, rpp, rqs, ds, res = planning(net, eq, s)
for r in rqs: print(r.request_id, r.N, r.M, getattr(r,'blocking_reason',None), r.tsp_mode, r.bit_rate, r.spacing)
from gnpy.tools.json_io import requests_from_json
from gnpy.topology.request import requests_aggregation, compare_reqs, correct_json_route_list
rq2 = requests_from_json(copy.deepcopy(s), eq)
print(compare_reqs(rq2[0], rq2[1], []))
for a in ['source','destination','tsp','tsp_mode','baud_rate','nodes_list','loose_list','spacing','power','nb_channel','f_min','f_max','format','OSNR','roll_off','tx_power']:
    if getattr(rq2[0],a)!=getattr(rq2[1],a): print('differs',a,getattr(rq2[0],a),getattr(rq2[1],a))
agg,_ = requests_aggregation(rq2, [])
print([r.request_id for r in agg], [r.path_bandwidth for r in agg], [(r.N,r.M) for r in agg])
