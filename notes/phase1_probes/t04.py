import logging, numpy as np
from pathlib import Path
import gnpy
from gnpy.tools.json_io import load_equipment
from gnpy.core.elements import Edfa
from gnpy.core.info import create_input_spectral_information, create_arbitrary_spectral_information
from gnpy.core.utils import lin2db, db2lin, watt2dbm, dbm2watt
logging.disable(logging.CRITICAL)
d = Path(gnpy.__file__).parent/'example-data'
eq = load_equipment(d/'eqpt_config.json')
print(list(eq['Edfa'].keys()))
rng = np.random.default_rng(1)
worst = {}
for name, amp in eq['Edfa'].items():
    if amp.type_def in ('multi_band',): continue
    for trial in range(40):
        gain = rng.uniform(amp.gain_min-3, amp.gain_flatmax+3)
        tilt = rng.choice([0, 0, rng.uniform(-3,3)])
        e = Edfa(uid='x', params=amp.__dict__, operational={'gain_target': gain, 'tilt_target': tilt, 'out_voa': 0})
        n = int(rng.integers(2, 90))
        f = np.sort(rng.choice(np.arange(191.4e12, 196.0e12, 50e9), size=n, replace=False))
        p = dbm2watt(rng.uniform(-30, -10, size=n))
        si = create_arbitrary_spectral_information(f, slot_width=50e9, pch=p, baud_rate=32e9, tx_osnr=40, tx_power=p)
        pin = si.ptot; sig_in = si.signal.copy()
        try:
            so = e(si)
        except Exception as ex:
            print(name, 'EXC', type(ex).__name__, ex); break
        g_sig = lin2db(sum(so.signal)/sum(sig_in))
        err = g_sig - e.effective_gain
        key=(name, tilt!=0)
        worst[key] = max(worst.get(key,0), abs(err))
for k,v in worst.items(): print(k, round(v,5))
