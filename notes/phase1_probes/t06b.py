import copy
from gen import *
import random
rng = random.Random(3)
tj,names,edges = rand_topo(rng, n_roadm=3, extra_edges=0)
for e in tj['elements']:
    if e['uid']=='roadm A': e['params']={'target_pch_out_db': 0}
try:
    net = build(tj); print('ok')
except Exception as ex:
    print('EXC', type(ex).__name__, ex)
