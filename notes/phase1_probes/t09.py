import random, copy, logging, numpy as np
from gen import *
from gnpy.topology.request import compute_constrained_path, propagate, PathRequest
from gnpy.core.elements import Roadm, Edfa, Fiber, Transceiver
from gnpy.core.utils import watt2dbm, lin2db
from gnpy.core.equipment import trx_mode_params
from gnpy.tools.worker_utils import designed_network
from gnpy.tools.json_io import network_from_json
import networkx as nx
worst=0
for seed in range(40):
    rng = random.Random(seed)
    tj,names,edges = rand_topo(rng, n_roadm=rng.randint(3,5), extra_edges=rng.randint(0,3), maxlen=180)
    net = network_from_json(copy.deepcopy(tj), EQ)
    net, req, ref = designed_network(EQ, net, source=f'trx {names[0]}', destination=f'trx {names[-1]}')
    path = compute_constrained_path(net, req)
    p = copy.deepcopy(path)
    si = propagate(p, req, EQ)
    pref = watt2dbm(ref.power)
    for e in p:
        if isinstance(e, Edfa):
            out = e.pch_out_dbm  # per channel incl noise
            tgt = pref + e.delta_p - 0  # before voa? pch_out after out_voa
            sig = None
            err = np.max(np.abs(out - (pref + e._delta_p - e.out_voa)))
            worst=max(worst,err)
            if err>0.05: print(seed, e.uid, 'out', np.round(out[:2],3), 'target', round(pref+e._delta_p-e.out_voa,3), 'gain',round(e.effective_gain,2), e.params.type_variety)
        if isinstance(e, Roadm):
            err = np.max(np.abs(e.pch_out_dbm - e.ref_pch_out_dbm))
            if err>0.05: print(seed,e.uid,'roadm out', np.round(e.pch_out_dbm[:2],3), e.ref_pch_out_dbm)
print('worst amp err', worst)
