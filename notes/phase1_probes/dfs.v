From Coq Require Import List Arith Lia Bool.
Import ListNotations.

Section G.
Variable succs : nat -> list nat.

Fixpoint paths (fuel : nat) (visited : list nat) (u t : nat) : list (list nat) :=
  match fuel with
  | 0 => []
  | S f =>
    if Nat.eqb u t then [[t]]
    else flat_map (fun v =>
           if existsb (Nat.eqb v) (u :: visited) then []
           else map (cons u) (paths f (u :: visited) v t)) (succs u)
  end.

Fixpoint is_walk (p : list nat) : Prop :=
  match p with
  | [] => False
  | [x] => True
  | x :: ((y :: _) as q) => In y (succs x) /\ is_walk q
  end.

Definition disjoint (p vis : list nat) := forall x, In x p -> ~ In x vis.

Lemma existsb_eqb_false v l : existsb (Nat.eqb v) l = false <-> ~ In v l.
Proof.
  split.
  - intros H Hin. assert (existsb (Nat.eqb v) l = true).
    { apply existsb_exists. exists v. split; [exact Hin|apply Nat.eqb_refl]. } congruence.
  - intros H. destruct (existsb (Nat.eqb v) l) eqn:E; [|reflexivity].
    apply existsb_exists in E. destruct E as (x & Hx & Hv). apply Nat.eqb_eq in Hv. subst. contradiction.
Qed.

(* completeness: every simple walk from u to t that ends at t (and t occurs only at the end),
   avoiding visited, of length <= fuel, is enumerated *)
Lemma paths_complete : forall fuel p vis u t,
  is_walk p -> hd_error p = Some u -> last p t = t -> NoDup p -> disjoint p vis ->
  length p <= fuel -> In p (paths fuel vis u t).
Proof.
  induction fuel as [|f IH]; intros p vis u t Hw Hhd Hlast Hnd Hdis Hlen.
  - destruct p; simpl in *; [contradiction|lia].
  - destruct p as [|x q]; [simpl in Hw; contradiction|].
    simpl in Hhd. injection Hhd as ->. cbn [paths].
    destruct (Nat.eqb u t) eqn:Eut.
    + apply Nat.eqb_eq in Eut. subst t. destruct q as [|y q'].
      * left; reflexivity.
      * (* u occurs at end again: contradiction with NoDup *)
        exfalso. assert (In u (y :: q')).
        { clear -Hlast. assert (H: last (u :: y :: q') u = last (y :: q') u) by reflexivity.
          rewrite H in Hlast. rewrite <- Hlast at 1.
          clear. generalize dependent y. induction q' as [|z q IH]; intros y; simpl; [left; reflexivity|].
          right. apply IH. }
        inversion Hnd; contradiction.
    + destruct q as [|y q'].
      * simpl in Hlast. subst t. rewrite Nat.eqb_refl in Eut. discriminate.
      * destruct Hw as [Hin Hw']. apply in_flat_map. exists y. split; [exact Hin|].
        assert (Hny : ~ In y (u :: vis)).
        { intros [->|Hv]; [inversion Hnd as [|? ? Hnin _]; apply Hnin; left; reflexivity
                          | apply (Hdis y); [right; left; reflexivity|exact Hv]]. }
        apply existsb_eqb_false in Hny. rewrite Hny.
        apply in_map. apply IH.
        -- exact Hw'.
        -- reflexivity.
        -- exact Hlast.
        -- inversion Hnd; assumption.
        -- intros z Hz [->|Hv].
           ++ inversion Hnd as [|? ? Hnin _]. contradiction.
           ++ apply (Hdis z); [right; exact Hz|exact Hv].
        -- simpl in Hlen |- *. lia.
Qed.
End G.
Print Assumptions paths_complete.
