From Coq Require Import QArith Qfield Lqa List Lia.
Import ListNotations.
Open Scope Q_scope.
Record ch := { pch : Q; sr : Q; ar : Q; nr : Q }.
Definition add_ase (c : ch) (ase : Q) : ch :=
  let p' := pch c + ase in
  {| pch := p'; sr := sr c * (pch c / p'); ar := (ar c * pch c + ase) / p'; nr := nr c * (pch c / p') |}.
Definition add_nli (c : ch) (nli : Q) : ch :=
  let r := nli / pch c in
  {| pch := pch c; sr := sr c * (1 - r); ar := ar c * (1 - r); nr := nr c * (1 - r) + r |}.
Definition Inv (c : ch) : Prop := 0 < pch c /\ 0 <= sr c /\ 0 <= ar c /\ 0 <= nr c /\ sr c + ar c + nr c == 1.
Lemma add_ase_inv c ase : Inv c -> 0 <= ase -> Inv (add_ase c ase).
Proof.
  unfold Inv, add_ase; cbn [pch sr ar nr]. intros (Hp & Hs & Ha & Hn & Hsum) Hase.
  assert (Hp' : 0 < pch c + ase) by lra.
  assert (Hinv : 0 < / (pch c + ase)) by (apply Qinv_lt_0_compat; exact Hp').
  repeat split.
  - exact Hp'.
  - unfold Qdiv. apply Qmult_le_0_compat; [exact Hs|]. apply Qmult_le_0_compat; lra.
  - unfold Qdiv. apply Qmult_le_0_compat; [|lra]. nra.
  - unfold Qdiv. apply Qmult_le_0_compat; [exact Hn|]. apply Qmult_le_0_compat; lra.
  - setoid_replace (sr c * (pch c / (pch c + ase)) + (ar c * pch c + ase) / (pch c + ase) + nr c * (pch c / (pch c + ase)))
      with (((sr c + ar c + nr c) * pch c + ase) / (pch c + ase)) by (field; lra).
    rewrite Hsum. field. lra.
Qed.
Eval vm_compute in (add_ase {| pch := 1#1000; sr := 1; ar := 0; nr := 0 |} (3#1000000)).
