import logging, copy, numpy as np
from pathlib import Path
import gnpy
from gnpy.tools.json_io import load_equipments_and_configs, load_network, load_initial_spectrum, load_json
from gnpy.tools.worker_utils import designed_network
from gnpy.topology.request import compute_constrained_path, propagate, filter_si, find_elements_common_range
from gnpy.core.info import carriers_to_spectral_information
from gnpy.core.elements import Multiband_amplifier, Edfa, Transceiver
logging.disable(logging.CRITICAL)
d = Path(gnpy.__file__).parent/'example-data'
eq = load_equipments_and_configs(d/'eqpt_config_multiband.json', [], [])
net = load_network(d/'multiband_example_network.json', eq)
spec = load_initial_spectrum(d/'multiband_spectrum.json')
print(len(spec), min(spec), max(spec))
net, req, ref = designed_network(eq, net, source='trx Site_A', destination='trx Site_D', initial_spectrum=spec)
path = compute_constrained_path(net, req)
print([type(e).__name__[0] for e in path])
cr = find_elements_common_range(path, eq); print(cr)
si0 = carriers_to_spectral_information(spec, req.power)
kept = filter_si(path, eq, si0)
print('launched', si0.number_of_channels, 'kept', kept.number_of_channels)
# trace
import gnpy.core.elements as E
log=[]
p = copy.deepcopy(path)
for el in p:
    cls = type(el); orig = cls.__call__
for i,el in enumerate(p):
    pass
si = propagate(p, req, eq)
print('received', si.number_of_channels, 'sorted', bool(np.all(np.diff(si.frequency)>0)), 'same freqs', np.array_equal(si.frequency, kept.frequency), 'labels', np.array_equal(si.label, kept.label), np.array_equal(si.baud_rate, kept.baud_rate))
print(len(p[-1].snr), p[-1].snr[:3])
