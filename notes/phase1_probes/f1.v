From Coq Require Import PrimFloat Uint63 ZArith List.
Import ListNotations.
Open Scope float_scope.
Definition x := 0x1.8p+1.
Eval vm_compute in (x * 2.5, sqrt 2).
(* exp via range reduction + Taylor *)
Definition ln2 := 0x1.62e42fefa39efp-1.
Fixpoint horner (cs : list float) (r : float) : float :=
  match cs with [] => 0 | c :: t => c + r * horner t r end.
Definition exp_coefs : list float :=
  [1; 1; 0.5; 0x1.5555555555555p-3; 0x1.5555555555555p-5; 0x1.1111111111111p-7; 0x1.6c16c16c16c17p-10;
   0x1.a01a01a01a01ap-13; 0x1.a01a01a01a01ap-16; 0x1.71de3a556c734p-19; 0x1.27e4fb7789f5cp-22; 0x1.ae64567f544e4p-26; 0x1.1eed8eff8d898p-29].
Definition fexp (x : float) : float :=
  let k := PrimFloat.of_uint63 (Uint63.of_Z 0) in
  let kf := (x / ln2) in
  (* floor via normfr_mantissa hack not needed: use repeated squaring: exp(x) = (exp(x/2^10))^(2^10) *)
  let r := x / 1024 in
  let e := horner exp_coefs r in
  let sq := fun y => y * y in
  sq (sq (sq (sq (sq (sq (sq (sq (sq (sq e))))))))).
Eval vm_compute in (fexp 1, fexp (-4.605170185988091), fexp 0.23025850929940458).
