import logging, copy, random
from pathlib import Path
import gnpy
from gnpy.tools.json_io import load_json, _equipment_from_json
from gnpy.tools.default_edfa_config import DEFAULT_EXTRA_CONFIG
from gnpy.core.network import select_edfa, edfa_nf
from gnpy.core.exceptions import ConfigurationError
logging.disable(logging.CRITICAL)
d = Path(gnpy.__file__).parent/'example-data'
ej = load_json(d/'eqpt_config.json')
def rand_lib(rng, n):
    amps=[]
    for i in range(n):
        gmin = rng.choice([8,10,12,15,20]); gmax = gmin + rng.choice([6,8,10,15])
        nfmin = rng.choice([5,5.5,6,6.5,7]); nfmax = nfmin + rng.choice([2,3,4,5])
        amps.append({'type_variety':f'amp{i}','type_def':'variable_gain','gain_flatmax':gmax,'gain_min':gmin,'p_max':rng.choice([16,18,21,23,25]),
                     'nf_min':nfmin,'nf_max':nfmax,'out_voa_auto':False,'allowed_for_design':True})
    return amps
bad=0; tot=0; noncap=0
for seed in range(400):
    rng = random.Random(seed)
    e = copy.deepcopy(ej); e['Edfa'] = rand_lib(rng, rng.randint(1,8))
    try:
        eq = _equipment_from_json(e, DEFAULT_EXTRA_CONFIG)
    except Exception as ex:
        continue
    lib = {n:a for n,a in eq['Edfa'].items()}
    g = rng.uniform(5,35); p = rng.uniform(10,26); ext = 2.5
    try:
        var, red = select_edfa(False, g, p, lib, 'x', ext, verbose=False)
    except ConfigurationError as ex:
        print('CFG', ex); continue
    tot+=1
    pin = p-g
    def cap(a): return (g+3-a.gain_min>0) and (min(pin+a.gain_flatmax+ext, a.p_max)-p > 0)
    caps = [n for n,a in lib.items() if cap(a)]
    nf = {n: edfa_nf(g, a) for n,a in lib.items()}
    if caps:
        if var not in caps: bad+=1; print(seed,'selected not capable',var,caps)
        elif nf[var] > min(nf[c] for c in caps)+1e-12: bad+=1; print(seed,'not quietest', var, nf[var], min(nf[c] for c in caps))
    else: noncap+=1
print('tot',tot,'bad',bad,'no capable',noncap)
