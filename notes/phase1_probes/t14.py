from gnpy.topology.spectrum_assignment import OMS, Bitmap, BitmapValue, aggregate_oms_bitmap, compute_n_m
class RQ: pass
def mk():
    o = OMS(oms_id=0, el_id_list=[], el_list=[])
    o.update_spectrum(191.3e12, 196.1e12, grid=0.00625e12, guardband=0.025e12)
    return o
o = mk(); o2 = mk()
before = list(o.spectrum_bitmap.bitmap)
rq = RQ(); rq.N=[0, 2]; rq.M=[4, 4]
sel_n, sel_m, rem = compute_n_m(8, rq, [0], [o], 4)
print(sel_n, sel_m, rem)
after = o.spectrum_bitmap.bitmap
print('1 oms: changed', before != after, sum(1 for a,b in zip(before,after) if a!=b))
o = mk()
before = list(o.spectrum_bitmap.bitmap)
sel_n, sel_m, rem = compute_n_m(8, rq, [0,1], [o,o2], 4)
print(sel_n, sel_m, rem, '2 oms changed', before != o.spectrum_bitmap.bitmap, list(o2.spectrum_bitmap.bitmap)!=before)
