import json, copy, logging
from pathlib import Path
import gnpy
from gnpy.tools.json_io import load_equipment, network_from_json, network_to_json, load_json
from gnpy.tools.worker_utils import designed_network
from gnpy.core.elements import Fiber, Edfa, Roadm
logging.disable(logging.CRITICAL)
d = Path(gnpy.__file__).parent/'example-data'
eq = load_equipment(d/'eqpt_config.json')
def topo(length, lumped=None, eol=None):
    els = [{'uid':'trx A','type':'Transceiver'},{'uid':'trx B','type':'Transceiver'},
           {'uid':'roadm A','type':'Roadm'},{'uid':'roadm B','type':'Roadm'},
           {'uid':'fiber AB','type':'Fiber','type_variety':'SSMF','params':{'length':length,'length_units':'km','loss_coef':0.2,'con_in':None,'con_out':None}},
           {'uid':'fiber BA','type':'Fiber','type_variety':'SSMF','params':{'length':length,'length_units':'km','loss_coef':0.2,'con_in':None,'con_out':None}}]
    if lumped: els[4]['params']['lumped_losses']=lumped
    cx = [('trx A','roadm A'),('roadm A','fiber AB'),('fiber AB','roadm B'),('roadm B','trx B'),
          ('trx B','roadm B'),('roadm B','fiber BA'),('fiber BA','roadm A'),('roadm A','trx A')]
    return {'elements':els,'connections':[{'from_node':a,'to_node':b} for a,b in cx]}
try:
    net = network_from_json(topo(200, [{'position':10,'loss':1.5}]), eq)
    net,_,_ = designed_network(eq, net)
    for n in net.nodes():
        if isinstance(n, Fiber): print(n.uid, n.params.length, n.params.lumped_losses, round(float(n.loss),3))
except Exception as e:
    print('ERR', type(e).__name__, e)
try:
    net = network_from_json(topo(200, [{'position':150,'loss':1.5}]), eq)
    net,_,_ = designed_network(eq, net)
    for n in net.nodes():
        if isinstance(n, Fiber): print(n.uid, n.params.length, n.params.lumped_losses, round(float(n.loss),3))
except Exception as e:
    print('ERR', type(e).__name__, e)
