from gnpy.tools.json_io import _equipment_from_json
from gnpy.tools.default_edfa_config import DEFAULT_EXTRA_CONFIG
import json, gnpy
from pathlib import Path
d = Path(gnpy.__file__).parent/'example-data'
j = json.load(open(d/'eqpt_config.json'))
trx = [t for t in j['Transceiver']]
print([ (t['type_variety'], t.get('other_name')) for t in trx])
trx[0]['other_name'] = ['aliasA','aliasB']
eq = _equipment_from_json(j, DEFAULT_EXTRA_CONFIG)
for k in ['aliasA','aliasB',trx[0]['type_variety'] if trx[0]['type_variety'] not in('aliasA','aliasB') else None]:
    print(k, '->', eq['Transceiver'][k].type_variety if k in eq['Transceiver'] else 'MISSING')
print(list(eq['Transceiver'].keys()))
