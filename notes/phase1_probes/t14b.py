import logging, copy
from pathlib import Path
import gnpy
from gnpy.tools.json_io import load_equipment, load_json, network_from_json
from gnpy.tools.worker_utils import designed_network, planning
logging.disable(logging.CRITICAL)
d = Path(gnpy.__file__).parent/'example-data'
eq = load_equipment(d/'eqpt_config.json')
tj = load_json(d/'meshTopologyExampleV2.json')
net = network_from_json(copy.deepcopy(tj), eq); net,_,_ = designed_network(eq, net)
sj = load_json(d/'meshTopologyExampleV2_services.json')
print(json:=None)
for N,M in [(10000,4),(-400,4),(0,None),(470,8),(480,4)]:
    s = copy.deepcopy(sj); s['path-request']=s['path-request'][:1]; s.pop('synchronization',None)
    s['path-request'][0]['path-constraints']['te-bandwidth']['effective-freq-slot']=[{'N':N,'M':M}]
    try:
        oms, pp, rpp, rqs, ds, res = planning(copy.deepcopy(net), eq, s)
        print(N,M,'->', rqs[0].N, rqs[0].M, getattr(rqs[0],'blocking_reason',None))
    except Exception as e:
        print(N,M,'EXC', type(e).__name__, e)
