import logging, copy, numpy as np
from pathlib import Path
import gnpy
from gnpy.tools.json_io import load_equipment, load_network, load_json, requests_from_json
from gnpy.tools.worker_utils import designed_network
from gnpy.topology.request import compute_constrained_path, PathRequest
from gnpy.topology.spectrum_assignment import build_oms_list
logging.disable(logging.CRITICAL)
d = Path(gnpy.__file__).parent/'example-data'
eq = load_equipment(d/'eqpt_config.json')
net = load_network(d/'meshTopologyExampleV2.json', eq)
net,_,_ = designed_network(eq, net)
oms = build_oms_list(net, eq)
uids = {n.uid:n for n in net.nodes()}
def oms_between(a,b):
    for o in oms:
        if o.el_id_list[0]==f'roadm {a}' and o.el_id_list[-1]==f'roadm {b}': return o
A,B,C='Lorient_KMA','Vannes_KBE','Loudeac'
print([ (o.el_id_list[0],o.el_id_list[-1]) for o in oms][:40])
o1=oms_between(A,B); o2=oms_between(B,A); 
# find a third from A
o3 = next(o for o in oms if o.el_id_list[0]==f'roadm {A}' and o.el_id_list[-1]!=f'roadm {B}')
dest = o3.el_id_list[-1].replace('roadm ','')
class R: pass
def mk(nodes, loose):
    r=R(); r.request_id='x'; r.source=f'trx {A}'; r.destination=f'trx {dest}'; r.nodes_list=nodes+[r.destination]; r.loose_list=loose+['STRICT']; return r
r = mk([o1.el_id_list[1], o2.el_id_list[1], o3.el_id_list[1]], ['STRICT']*3)
p = compute_constrained_path(net, r)
print([e.uid for e in p])
print('len', len(p), 'unique', len(set(e.uid for e in p)), getattr(r,'blocking_reason',None))
ok = all(net.has_edge(a,b) for a,b in zip(p,p[1:]))
print('follows edges', ok)
