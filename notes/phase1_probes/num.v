From Coq Require Import Reals Lra Lia List PrimFloat.
From Coq Require Import Rpower.
Import ListNotations.

Record Num := {
  T : Type; zero : T; one : T; add : T -> T -> T; sub : T -> T -> T; mul : T -> T -> T; div : T -> T -> T;
  abs : T -> T; asinh : T -> T; nexp : T -> T; pi : T; two : T
}.
Definition NumR : Num := {| T := R; zero := 0%R; one := 1%R; add := Rplus; sub := Rminus; mul := Rmult; div := Rdiv;
  abs := Rabs; asinh := arcsinh; nexp := exp; pi := PI; two := 2%R |}.
Definition fasinh (x : float) : float := x. (* placeholder *)
Definition NumF : Num := {| T := float; zero := 0%float; one := 1%float; add := PrimFloat.add; sub := PrimFloat.sub; mul := PrimFloat.mul; div := PrimFloat.div;
  abs := PrimFloat.abs; asinh := fasinh; nexp := fun x => x; pi := 0x1.921fb54442d18p+1%float; two := 2%float |}.

Section Model.
Variable N : Num.
Notation "x + y" := (add N x y). Notation "x - y" := (sub N x y). Notation "x * y" := (mul N x y). Notation "x / y" := (div N x y).
(* psi_ij of GN closed form: df = f_j - f_i ; bi cut baud ; bj pump baud ; la asymptotic length ; leff ; b2 = |beta2| *)
Definition psi (df bi bj la leff b2 : T N) : T N :=
  let c := pi N * pi N * la * b2 * bi in
  let r := df + bj / two N in
  let l := df - bj / two N in
  ((asinh N (c * r) - asinh N (c * l)) / two N) * (leff * leff / (two N * pi N * b2 * la)).
End Model.

Ltac pos := repeat match goal with |- (0 < ?a * ?b)%R => apply Rmult_lt_0_compat end; try assumption; try lra.
Lemma psi_nonneg (df bi bj la leff b2 : R) :
  (0 < bi -> 0 < bj -> 0 < la -> 0 < b2 -> 0 <= psi NumR df bi bj la leff b2)%R.
Proof.
  intros Hbi Hbj Hla Hb2. unfold psi; cbn [NumR T add sub mul div asinh pi two].
  assert (Hpi := PI_RGT_0).
  assert (Hc : (0 < PI * PI * la * b2 * bi)%R).
  { pos. }
  apply Rmult_le_pos.
  - apply Rmult_le_pos; [|lra].
    assert (arcsinh (PI * PI * la * b2 * bi * (df - bj / 2)) <= arcsinh (PI * PI * la * b2 * bi * (df + bj / 2)))%R.
    { apply arcsinh_le. apply Rmult_le_compat_l; [lra|lra]. }
    lra.
  - apply Rmult_le_pos; [nra|].
    apply Rlt_le, Rinv_0_lt_compat. pos.
Qed.
Print Assumptions psi_nonneg.
Eval vm_compute in (psi NumF 50e9 32e9 32e9 21714.7 21000 21.3e-27)%float.
