import random, copy, logging, json
from gen import *
from gnpy.tools.worker_utils import planning
from gnpy.tools.json_io import network_to_json
from gnpy.topology.request import BLOCKING_NOSPECTRUM
def mkreq(i, s, t, rng, names):
    mode = rng.choice(['mode 1','mode 2','mode 3','mode 4', None])
    r = {'request-id': str(i), 'source': f'trx {s}', 'destination': f'trx {t}', 'src-tp-id':f'trx {s}','dst-tp-id':f'trx {t}',
         'bidirectional': rng.random()<0.3,
         'path-constraints': {'te-bandwidth': {'technology':'flexi-grid','trx_type':'Voyager','trx_mode':mode,
              'effective-freq-slot':[{'N':None,'M':None}], 'spacing': rng.choice([50e9,62.5e9,75e9,100e9]),
              'max-nb-of-channel': rng.choice([None, 40, 80]), 'output-power': rng.choice([None, 1e-3, 3e-3, 0.5e-3]),
              'path_bandwidth': rng.choice([100e9, 400e9, 1000e9])}}}
    return r
def summarize(res):
    out={}
    for r in res:
        j = copy.deepcopy(r.json)
        # strip labels & spectrum blocking
        s = json.dumps(j, sort_keys=True, default=str)
        rq = r.path_request
        br = getattr(rq,'blocking_reason',None)
        if br in BLOCKING_NOSPECTRUM: br=None
        route = [e.uid for e in r.computed_path]
        mets = None
        if r.computed_path and r.computed_path[-1].snr is not None:
            rx = r.computed_path[-1]
            mets = (tuple(rx.snr_01nm.round(9)), tuple(rx.osnr_ase_01nm.round(9)))
        out[rq.request_id]=(route, rq.tsp_mode, br, mets)
    return out
bad=0
for seed in range(60):
    rng = random.Random(seed)
    tj,names,edges = rand_topo(rng, n_roadm=rng.randint(3,5), extra_edges=rng.randint(0,3), maxlen=150)
    net = build(tj)
    nj0 = json.dumps(network_to_json(net), sort_keys=True)
    reqs=[]
    for i in range(rng.randint(2,6)):
        s,t = rng.sample(names,2); reqs.append(mkreq(i,s,t,rng,names))
    try:
        base = summarize(planning(net, EQ, {'path-request': copy.deepcopy(reqs)})[5])
    except Exception as e:
        print(seed,'EXC',type(e).__name__,e); continue
    if json.dumps(network_to_json(net), sort_keys=True)!=nj0: print(seed,'network changed'); bad+=1
    # alone
    for r in reqs:
        net2 = build(tj)
        one = summarize(planning(net2, EQ, {'path-request':[copy.deepcopy(r)]})[5])
        k = r['request-id']
        if k in base and one[k]!=base[k]:
            bad+=1; print(seed,'DIFF alone', k, base[k][1:3], one[k][1:3], (base[k][3] or [[None]])[0][:2], (one[k][3] or [[None]])[0][:2])
    rr = reqs[:]; rng.shuffle(rr)
    net3 = build(tj)
    sh = summarize(planning(net3, EQ, {'path-request': copy.deepcopy(rr)})[5])
    for k in base:
        if k in sh and sh[k]!=base[k]: bad+=1; print(seed,'DIFF shuffled',k)
print('bad',bad)
