From Coq Require Import ZArith List String DecimalString Decimal.
Import ListNotations.
Open Scope string_scope.
Definition zs (z : Z) : string := NilZero.string_of_int (Z.to_int z).
Fixpoint join (sep : string) (l : list string) : string :=
  match l with [] => "" | [x] => x | x :: t => x ++ sep ++ join sep t end.
Definition render (rows : list (list Z)) : string := join (String (Ascii.ascii_of_nat 10) "") (map (fun r => join " " (map zs r)) rows).
Definition cases : list (list Z) := map (fun i => [Z.of_nat i; (Z.of_nat i * 7919 - 12345)%Z; (-3)%Z]) (seq 0 500).
Redirect "br_out" Eval vm_compute in (render cases).
