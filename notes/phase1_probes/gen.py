import random, copy, logging
from pathlib import Path
import gnpy
from gnpy.tools.json_io import load_equipment, network_from_json
from gnpy.tools.worker_utils import designed_network
logging.disable(logging.CRITICAL)
d = Path(gnpy.__file__).parent/'example-data'
EQ = load_equipment(d/'eqpt_config.json')
def rand_topo(rng, n_roadm=5, extra_edges=3, ila_prob=0.4, maxlen=120):
    names = [chr(65+i) for i in range(n_roadm)]
    edges = set()
    order = names[:]; rng.shuffle(order)
    for i in range(1,len(order)):
        a = order[i]; b = rng.choice(order[:i]); edges.add(tuple(sorted((a,b))))
    tries=0
    while len(edges) < n_roadm-1+extra_edges and tries<100:
        a,b = rng.sample(names,2); edges.add(tuple(sorted((a,b)))); tries+=1
    els=[]; cx=[]
    for x in names:
        els += [{'uid':f'trx {x}','type':'Transceiver'},{'uid':f'roadm {x}','type':'Roadm'}]
        cx += [(f'trx {x}',f'roadm {x}'),(f'roadm {x}',f'trx {x}')]
    for (a,b) in sorted(edges):
        for (s,t) in ((a,b),(b,a)):
            nsp = 1 + (rng.random()<ila_prob) + (rng.random()<ila_prob/2)
            prev = f'roadm {s}'
            for k in range(nsp):
                fu = f'fiber {s}{t}_{k}'
                els.append({'uid':fu,'type':'Fiber','type_variety':'SSMF','params':{'length':round(rng.uniform(20,maxlen),3),'length_units':'km','loss_coef':0.2,'con_in':None,'con_out':None}})
                cx.append((prev,fu)); prev=fu
            cx.append((prev,f'roadm {t}'))
    return {'elements':els,'connections':[{'from_node':a,'to_node':b} for a,b in cx]}, names, sorted(edges)
def build(tj):
    net = network_from_json(copy.deepcopy(tj), EQ)
    net,_,_ = designed_network(EQ, net)
    return net
if __name__=='__main__':
    rng = random.Random(1)
    tj,names,edges = rand_topo(rng)
    net = build(tj); print(len(net), edges)
