import time, logging, copy, json
from pathlib import Path
import gnpy
from gnpy.tools.json_io import load_equipment, load_network, load_json, network_from_json
from gnpy.tools.worker_utils import designed_network, planning
logging.disable(logging.CRITICAL)
d = Path(gnpy.__file__).parent/'example-data'
t=time.time(); eq = load_equipment(d/'eqpt_config.json'); print('load eq', time.time()-t)
tj = load_json(d/'meshTopologyExampleV2.json')
t=time.time(); net = network_from_json(copy.deepcopy(tj), eq); print('net from json', time.time()-t, len(net))
t=time.time(); net,_,_ = designed_network(eq, net); print('design', time.time()-t, len(net))
sj = load_json(d/'meshTopologyExampleV2_services.json')
t=time.time(); r = planning(net, eq, copy.deepcopy(sj)); print('planning', time.time()-t, len(sj['path-request']))
