import logging, copy
from pathlib import Path
import gnpy
from gnpy.tools.json_io import load_equipment, load_json, requests_from_json
from gnpy.topology.request import requests_aggregation, compare_reqs
logging.disable(logging.CRITICAL)
d = Path(gnpy.__file__).parent/'example-data'
eq = load_equipment(d/'eqpt_config.json')
sj = load_json(d/'meshTopologyExampleV2_services.json')
base = copy.deepcopy(sj['path-request'][0]); base.pop('explicit-route-objects',None)
def rq(i): r=copy.deepcopy(base); r['request-id']=str(i); return r
rqs = requests_from_json({'path-request':[rq(0),rq(1),rq(2)]}, eq)
print([ (r.request_id, r.tsp_mode, r.path_bandwidth, r.N, r.M) for r in rqs])
print(compare_reqs(rqs[0], rqs[1], []))
agg,_ = requests_aggregation(rqs, [])
print([ (r.request_id, r.tsp_mode, r.path_bandwidth, r.N, r.M) for r in agg])
