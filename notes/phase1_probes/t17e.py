import json, copy, logging, sys
from pathlib import Path
import gnpy
from gnpy.tools.json_io import network_from_json, network_to_json, load_json, load_equipments_and_configs
from gnpy.tools.worker_utils import designed_network
from gnpy.core.parameters import SimParams
from gnpy.core.elements import Roadm, Transceiver
logging.disable(logging.CRITICAL)
d = Path(gnpy.__file__).parent/'example-data'
eq = load_equipments_and_configs(d/'eqpt_config_multiband.json', [], [])
print({k:(v.f_min,v.f_max,v.spacing) for k,v in eq['SI'].items()})
tj = load_json(d/'multiband_example_network.json')
net = network_from_json(copy.deepcopy(tj), eq)
net,_,_ = designed_network(eq, net)
for n in net.nodes():
    if isinstance(n,(Roadm,Transceiver)) and 'Site_A' in n.uid: print(1,n.uid, n.design_bands, n.per_degree_design_bands, n.params.design_bands, n.params.per_degree_design_bands)
j1 = network_to_json(net)
print([e for e in j1['elements'] if e['uid']=='roadm Site_A'])
net2 = network_from_json(copy.deepcopy(j1), eq)
net2,_,_ = designed_network(eq, net2)
for n in net2.nodes():
    if isinstance(n,(Roadm,Transceiver)) and 'Site_A' in n.uid: print(2,n.uid, n.design_bands, n.per_degree_design_bands)
