import logging, numpy as np, math
from gnpy.core.elements import Fiber
from gnpy.core.info import create_arbitrary_spectral_information
from gnpy.core.science_utils import NliSolver, RamanSolver
from gnpy.core.parameters import SimParams
from scipy.constants import c, pi
logging.disable(logging.CRITICAL)
rng = np.random.default_rng(0)
def ref_nli(f, B, P, fiber):
    n=len(f); L=fiber.params.length
    alpha = np.atleast_1d(fiber.alpha(f))*np.ones(n); beta2 = np.atleast_1d(fiber.beta2(f))*np.ones(n); gamma=np.atleast_1d(fiber.gamma(f))*np.ones(n)
    out = np.zeros(n)
    for i in range(n):
        for j in range(n):
            w = 16/27 if i==j else 32/27
            b2 = abs((beta2[i]+beta2[j])/2)
            La = 1/alpha[j]; Leff = (1-math.exp(-alpha[j]*L))/alpha[j]
            df = f[j]-f[i]
            cc = pi**2*La*b2*B[i]
            psi = (math.asinh(cc*(df+B[j]/2)) - math.asinh(cc*(df-B[j]/2)))/2 * Leff**2/(2*pi*b2*La)
            out[i] += P[i]*P[j]**2 * gamma[i]**2 * w * psi / (B[j]**2)
    return out
worst=0
for trial in range(30):
    n = int(rng.integers(1,12))
    f = np.sort(193e12 + rng.choice(np.arange(-30,30), size=n, replace=False)*100e9)
    B = rng.choice([32e9,44e9,64e9], size=n); sw = np.full(n, 75e9)
    P = 10**(rng.uniform(-5,1,size=n)/10)*1e-3
    params = {'length':float(rng.uniform(1,150)),'length_units':'km','con_in':0,'con_out':0,'att_in':0,'pmd_coef':1e-15,
              'dispersion':1.67e-05,'effective_area':83e-12}
    if rng.random()<0.5:
        params['loss_coef'] = {'value': [0.18,0.2,0.25], 'frequency':[180e12,193e12,200e12]}
    else: params['loss_coef']=float(rng.uniform(0.15,0.3))
    if rng.random()<0.5: params['dispersion_slope']=0.06e3
    fib = Fiber(uid='f', type_variety='SSMF', params=params)
    si = create_arbitrary_spectral_information(f, slot_width=sw, pch=P, baud_rate=B, tx_osnr=40, tx_power=P)
    srs = RamanSolver.calculate_stimulated_raman_scattering(si, fib)
    nli = NliSolver.compute_nli(si, srs, fib)
    r = ref_nli(f,B,P,fib)
    err = np.max(np.abs(nli-r)/r)
    worst=max(worst,err)
print('worst rel err', worst)
