import random, copy, itertools, logging
from gen import *
from gnpy.topology.request import compute_path_dsjctn, PathRequest, Disjunction
from gnpy.topology.spectrum_assignment import build_oms_list
from gnpy.core.elements import Roadm
from gnpy.core.exceptions import DisjunctionError
import networkx as nx
def roadm_seq(p): return [e.uid for e in p if isinstance(e,Roadm)]
def links(p):
    r = roadm_seq(p); return {frozenset(x) for x in zip(r,r[1:])}
stats={'ok':0,'err_but_exists':0,'err_none':0,'overlap':0}
for seed in range(150):
    rng = random.Random(seed)
    tj,names,edges = rand_topo(rng, n_roadm=rng.randint(3,6), extra_edges=rng.randint(0,4))
    net = build(tj); build_oms_list(net, EQ)
    (a,b) = rng.sample(names,2); (c,dd) = rng.choice([(a,b), tuple(rng.sample(names,2))])
    def mk(i,s,t): return PathRequest(request_id=str(i), source=f'trx {s}', destination=f'trx {t}', trx_type='Voyager', trx_mode='mode 1', nodes_list=[], loose_list=[], spacing=50e9, power=1e-3, nb_channel=80, bidir=False, effective_freq_slot=[{'N':None,'M':None}], path_bandwidth=1e11)
    rqs=[mk(0,a,b), mk(1,c,dd)]
    dis=[Disjunction(disjunction_id='d', relaxable=False, link_diverse=True, node_diverse=True, disjunctions_req=['0','1'])]
    # brute force existence on roadm graph
    G = nx.Graph(); G.add_edges_from(edges)
    P1 = list(nx.all_simple_paths(G,a,b)); P2=list(nx.all_simple_paths(G,c,dd))
    def el(p): return {frozenset(x) for x in zip(p,p[1:])}
    exists = any(not (el(p)&el(q)) for p in P1 for q in P2)
    try:
        pths = compute_path_dsjctn(net, EQ, rqs, dis)
        l0,l1 = links(pths[0]),links(pths[1])
        if l0&l1: stats['overlap']+=1; print('OVERLAP',seed)
        else: stats['ok']+=1
        if not exists: print('impl found but brute says none?', seed)
    except DisjunctionError:
        if exists: stats['err_but_exists']+=1; print('MISSED', seed, edges,(a,b),(c,dd))
        else: stats['err_none']+=1
    except Exception as e:
        print('EXC', seed, type(e).__name__, e)
print(stats)
