from pathlib import Path
from gnpy.tools.json_io import load_equipment, load_network, load_equipments_and_configs
from gnpy.tools.worker_utils import designed_network
from gnpy.topology.spectrum_assignment import build_oms_list
import gnpy, logging
d = Path(gnpy.__file__).parent/'example-data'
eq = load_equipments_and_configs(d/'eqpt_config_multiband.json', [], [])
net = load_network(d/'multiband_example_network.json', eq)
net, req, ref = designed_network(eq, net)
try:
    oms = build_oms_list(net, eq)
    print('ok', len(oms))
    for o in oms[:6]:
        b=o.spectrum_bitmap
        from collections import Counter
        print(o.el_id_list[0], o.el_id_list[-1], b.n_min,b.n_max,len(b.bitmap), Counter(str(x) for x in b.bitmap))
except Exception as e:
    import traceback; traceback.print_exc()
