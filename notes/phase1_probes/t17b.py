import json, copy, logging, sys
from pathlib import Path
import gnpy
from gnpy.tools.json_io import load_equipment, network_from_json, network_to_json, load_json, _equipment_from_json, load_equipments_and_configs
from gnpy.tools.worker_utils import designed_network
from gnpy.core.parameters import SimParams
logging.disable(logging.CRITICAL)
d = Path(gnpy.__file__).parent/'example-data'
eqf, topof = sys.argv[1], sys.argv[2]
eq = load_equipments_and_configs(d/eqf, [], [])
sp = load_json(d/'sim_params.json')
sp['raman_params']['method']='numerical'; sp['nli_params']['method']='ggn_spectrally_separated'; sp['nli_params']['computed_channels']=[1,18,37]
import os
if os.environ.get("RAMAN"): SimParams.set_params(sp)
before = (SimParams._shared_dict['raman_params'].to_json(), SimParams._shared_dict['nli_params'].to_json())
tj = load_json(d/topof)
net = network_from_json(copy.deepcopy(tj), eq)
net,_,_ = designed_network(eq, net)
after = (SimParams._shared_dict['raman_params'].to_json(), SimParams._shared_dict['nli_params'].to_json())
print('simparams same', before==after)
j1 = network_to_json(net)
net2 = network_from_json(copy.deepcopy(j1), eq)
net2,_,_ = designed_network(eq, net2)
j2 = network_to_json(net2)
def diff(a,b,path=''):
    if isinstance(a,dict) and isinstance(b,dict):
        for k in set(a)|set(b):
            if k not in a or k not in b: print(path+'/'+k, 'missing', a.get(k), b.get(k))
            else: diff(a[k],b[k],path+'/'+k)
    elif isinstance(a,list) and isinstance(b,list):
        if len(a)!=len(b): print(path,'len',len(a),len(b))
        for i,(x,y) in enumerate(zip(a,b)): diff(x,y,path+f'[{i}]')
    elif a!=b:
        print(path, a, b)
e1 = {e['uid']:e for e in j1['elements']}; e2={e['uid']:e for e in j2['elements']}
print(len(e1),len(e2), set(e1)^set(e2))
for u in e1:
    if u in e2: diff(e1[u],e2[u],u)
print('conn equal', sorted(map(str,j1['connections']))==sorted(map(str,j2['connections'])))
