from gnpy.topology.spectrum_assignment import OMS, Bitmap, BitmapValue, align_grids, frequency_to_n
def mk(fmin,fmax):
    o = OMS(oms_id=0, el_id_list=[], el_list=[])
    o.update_spectrum(fmin, fmax, grid=0.00625e12, guardband=0.025e12)
    return o
a = mk(191.3e12, 196.1e12); b = mk(191.3e12, 195.0e12)
print(a.spectrum_bitmap.n_min, a.spectrum_bitmap.n_max, b.spectrum_bitmap.n_min, b.spectrum_bitmap.n_max)
align_grids([a,b])
fb = b.spectrum_bitmap
print(fb.n_min, fb.n_max, len(fb.freq_index), len(set(fb.freq_index)), len(fb.bitmap), fb.freq_index[-3:])
# frequency_to_n truncation
for f in [191.3e12, 191.35e12, 196.1e12, 193.1e12-6.25e9*3, 186.1e12,190.9e12]:
    print(f, frequency_to_n(f), (f-193.1e12)/6.25e9)
