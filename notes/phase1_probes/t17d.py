import json, copy, logging, sys
from pathlib import Path
import gnpy
from gnpy.tools.json_io import network_from_json, network_to_json, load_json, load_equipments_and_configs
from gnpy.tools.worker_utils import designed_network
from gnpy.core.parameters import SimParams
import gnpy.core.network as N
logging.disable(logging.CRITICAL)
d = Path(gnpy.__file__).parent/'example-data'
eq = load_equipments_and_configs(d/'eqpt_config_multiband.json', [], [])
sp = load_json(d/'sim_params.json')
SimParams.set_params(sp)
orig = N.compute_gain_power_and_tilt_target
def wrap(node, prev_node, next_node, power_mode, prev_voa, prev_dp, pref_total_db, network, equipment, deviation_db, tilt_target):
    r = orig(node, prev_node, next_node, power_mode, prev_voa, prev_dp, pref_total_db, network, equipment, deviation_db, tilt_target)
    if node.uid=='east edfa in Site_B to Site_C':
        print('  CALL', node.params.type_variety, 'prev',prev_node.uid, 'prev_voa',prev_voa,'prev_dp',prev_dp,'dev',deviation_db,'tilt',tilt_target,'->',r)
    return r
N.compute_gain_power_and_tilt_target = wrap
tj = load_json(d/'multiband_example_network.json')
net = network_from_json(copy.deepcopy(tj), eq)
print('round1'); net,_,_ = designed_network(eq, net)
j1 = network_to_json(net)
net2 = network_from_json(copy.deepcopy(j1), eq)
print('round2'); net2,_,_ = designed_network(eq, net2)
